(* C15 -- urlencoded parameters equal the reference split/decoding for any chunking.
   This file contains only statements closed by `exact`, their assumptions, and examples. *)
Require Import Htp.Model.Base Htp.Model.MUrlenc Htp.Proof.PUrlenc.
Local Open Scope N_scope.

(* The reference of the property text (PUrlenc.ue_ref):
     ue_ref cfg s = map (fun p => let '(k, v) := ue_split_first '=' p in (ud_bytes cfg k, ud_bytes cfg v))
                        (ue_pieces '&' s)
   ue_pieces = split on '&' and drop only a final empty piece; ud_bytes = htp_urldecode_inplace_ex.
   ue_run cfg chunks = htp_urlenp_create; htp_urlenp_parse_partial on every chunk; htp_urlenp_finalize; params. *)

(* every decoder configuration, every byte string, every chunking (empty chunks, cuts inside %XX, ...) *)
Theorem C15_chunking : forall cfg chunks, ue_run cfg chunks = ue_ref cfg (concat chunks).
Proof. exact ue_chunking. Qed.
Print Assumptions C15_chunking.

(* the same with the decoder's side effects: tx->flags and tx->response_status_expected_number are those of
   decoding name then value of every reference pair, in order *)
Theorem C15_chunking_full : forall cfg chunks, ue_run_full cfg chunks = ue_ref_full cfg (concat chunks).
Proof. exact ue_chunking_full. Qed.
Print Assumptions C15_chunking_full.

(* any two chunkings of the same string give the same parameters (and flags) *)
Theorem C15_split_invariant : forall cfg c1 c2, concat c1 = concat c2 -> ue_run cfg c1 = ue_run cfg c2.
Proof. exact ue_split_invariant. Qed.
Print Assumptions C15_split_invariant.
Theorem C15_split_invariant_full : forall cfg c1 c2, concat c1 = concat c2 -> ue_run_full cfg c1 = ue_run_full cfg c2.
Proof. exact ue_split_invariant_full. Qed.

(* any argument separator and either setting of decode_url_encoding; any freshly created parser *)
Theorem C15_chunking_any_separator : forall cfg sep dec chunks,
  ue_run_with cfg sep dec chunks = ue_ref_gen cfg sep dec 0 0%Z (concat chunks).
Proof. exact ue_chunking_with. Qed.
Theorem C15_run_state_ref : forall cfg s0 chunks, ue_fresh s0 ->
  ue_obs (ue_run_state cfg s0 chunks) = ue_ref_gen cfg (ue_sep s0) (ue_decode s0) (ue_flags s0) (ue_status s0) (concat chunks).
Proof. exact ue_run_state_ref. Qed.
Print Assumptions C15_run_state_ref.

(* the abstract scanner used in the proof computes exactly split-on-separator / drop-final-empty / split-at-first-'=' *)
Theorem C15_reference_is_declarative : forall sep s,
  afinal (fold_left (astep sep) s (mkA UeKey [] [] [])) = map (ue_split_first ue_EQ) (ue_pieces sep s).
Proof. exact afinal_ref. Qed.

(* htp_ch_urlencoded_callback_request_line: no parser for an absent or empty query, otherwise the reference pairs
   tagged QUERY_STRING; body chunks: the reference pairs of the concatenation tagged BODY *)
Theorem C15_query_params : forall cfg q fl st,
  ue_tx_query cfg q fl st =
  match q with
  | None => ([], fl, st)
  | Some [] => ([], fl, st)
  | Some q =>
      let '(ps, fl', st') := ue_ref_gen cfg c_ue_default_separator c_ue_default_decode fl st q in
      (map (fun nv => (c_ue_SOURCE_QUERY_STRING, fst nv, snd nv)) ps, fl', st')
  end.
Proof. exact ue_tx_query_spec. Qed.
Theorem C15_body_params : forall cfg chunks fl st,
  ue_tx_body cfg chunks fl st =
  let '(ps, fl', st') := ue_ref_gen cfg c_ue_default_separator c_ue_default_decode fl st (concat chunks) in
  (map (fun nv => (c_ue_SOURCE_BODY, fst nv, snd nv)) ps, fl', st').
Proof. exact ue_tx_body_spec. Qed.
Theorem C15_tx_split_invariant : forall cfg q c1 c2, concat c1 = concat c2 -> ue_tx cfg q (Some c1) = ue_tx cfg q (Some c2).
Proof. exact ue_tx_split_invariant. Qed.
Print Assumptions C15_tx_split_invariant.

(* ---- the decoder ---- *)

(* the decoding loop terminates within its fuel: one pass per input byte at most *)
Theorem C15_ud_fuel_sufficient : forall cfg len fuel fl st out rest,
  (length rest < fuel)%nat -> ud_loop fuel cfg len fl st out rest <> None.
Proof. exact ud_fuel_sufficient. Qed.

(* decoded output never longer than the input (wpos <= len) *)
Theorem C15_ud_length : forall cfg s, (length (ud_bytes cfg s) <= length s)%nat.
Proof. exact ud_length. Qed.
Print Assumptions C15_ud_length.

(* the decoded bytes do not depend on the flags / status the caller passes in *)
Theorem C15_ud_bytes_independent : forall cfg fl st s, fst (fst (ud_urldecode_from cfg fl st s)) = ud_bytes cfg s.
Proof. exact ud_from_bytes. Qed.

(* flags are only ever added *)
Theorem C15_ud_flags_monotone : forall cfg fl st s, N.land fl (snd (fst (ud_urldecode_from cfg fl st s))) = fl.
Proof. exact ud_flags_monotone. Qed.

(* token-level specification, all inputs, every configuration whose invalid-handling is one of the three enum values:
   the decoder = "tokenise greedily (PUrlenc.ud_classify / ud_tok_span), interpret the tokens in order, stop at a
   terminating NUL" -- output bytes, flags and expected status *)
Theorem C15_ud_token_spec : forall cfg fl st s,
  ud_handling_of cfg <> UdNoCase ->
  ud_urldecode_from cfg fl st s = ud_eval cfg fl st [] (ud_tokens cfg s).
Proof. exact ud_token_spec. Qed.
Print Assumptions C15_ud_token_spec.

(* flag exactness, both directions: an indicator is raised exactly when a token of its kind is among the
   interpreted tokens (those up to and including the first one that stops the decoding) *)
Theorem C15_ud_flag_invalid_iff : forall cfg s, ud_handling_of cfg <> UdNoCase ->
  ud_has (ud_out_flags cfg s) c_HTP_URLEN_INVALID_ENCODING = existsb ud_tok_is_bad (ud_live_tokens cfg s).
Proof. exact ud_flag_invalid_iff. Qed.
Theorem C15_ud_flag_overlong_iff : forall cfg s, ud_handling_of cfg <> UdNoCase ->
  ud_has (ud_out_flags cfg s) c_HTP_URLEN_OVERLONG_U = existsb (ud_tok_overlong cfg) (ud_live_tokens cfg s).
Proof. exact ud_flag_overlong_iff. Qed.
Theorem C15_ud_flag_halffull_iff : forall cfg s, ud_handling_of cfg <> UdNoCase ->
  ud_has (ud_out_flags cfg s) c_HTP_URLEN_HALF_FULL_RANGE = existsb (ud_tok_halffull cfg) (ud_live_tokens cfg s).
Proof. exact ud_flag_halffull_iff. Qed.
Theorem C15_ud_flag_encoded_nul_iff : forall cfg s, ud_handling_of cfg <> UdNoCase ->
  ud_has (ud_out_flags cfg s) c_HTP_URLEN_ENCODED_NUL = existsb (ud_tok_encoded_nul cfg) (ud_live_tokens cfg s).
Proof. exact ud_flag_encoded_nul_iff. Qed.
Theorem C15_ud_flag_raw_nul_iff : forall cfg s, ud_handling_of cfg <> UdNoCase ->
  ud_has (ud_out_flags cfg s) c_HTP_URLEN_RAW_NUL
  = existsb (fun t => match t with UtRawNul => true | _ => false end) (ud_live_tokens cfg s).
Proof. exact ud_flag_raw_nul_iff. Qed.
Print Assumptions C15_ud_flag_encoded_nul_iff.

(* closed forms on two fragments of the input language (no '%' at all; well-formed %HH only) *)
Theorem C15_ud_nopct_partial : forall cfg fl st s,
  ud_nopct s = true ->
  ud_urldecode_from cfg fl st s =
  (map (ud_plus cfg) (if d_nul_raw_term cfg then ud_until_nul s else s),
   (if ud_has_nul s then N.lor fl c_HTP_URLEN_RAW_NUL else fl),
   (if ud_has_nul s then ud_unwanted st (d_nul_raw_unwanted cfg) else st)).
Proof. exact ud_nopct_spec. Qed.
Print Assumptions C15_ud_nopct_partial.

Theorem C15_ud_wellformed_partial : forall cfg fl st s,
  ud_wfb s = true -> ud_urldecode_from cfg fl st s = (ud_ref_decode (d_plusspace cfg) s, fl, st).
Proof. exact ud_wellformed_spec. Qed.
Print Assumptions C15_ud_wellformed_partial.

(* ---- non-vacuity ---- *)
Definition ex_cfg : dcfg := mk_dcfg false false false false true true 0 false false false 63 0 0 400 0 0 0 0.
Definition ex_str (s : list nat) : bytes := map N.of_nat s.

(* "a=1&&b=%41+c&=x&d" cut in the middle of %41 and with an empty chunk *)
Example C15_example_chunked :
  ue_run ex_cfg [ [97; 61; 49; 38; 38; 98; 61; 37; 52]; []; [49; 43; 99; 38; 61; 120; 38; 100] ]
  = [ ([97], [49]); ([], []); ([98], [65; 32; 99]); ([], [120]); ([100], []) ].
Proof. vm_compute. reflexivity. Qed.

(* corner cases of the reference: "a&&b", "&", "=", "a=", "=b", "a=b=c", "a&", "" *)
Example C15_example_corners :
  map (ue_ref ex_cfg) [ [97; 38; 38; 98]; [38]; [61]; [97; 61]; [61; 98]; [97; 61; 98; 61; 99]; [97; 38]; [] ]
  = [ [([97], []); ([], []); ([98], [])]; [([], [])]; [([], [])]; [([97], [])]; [([], [98])];
      [([97], [98; 61; 99])]; [([97], [])]; [] ].
Proof. vm_compute. reflexivity. Qed.

(* flags and expected status accumulate over the pairs: "%zz=%u0041&b=%00" -> invalid encoding (400), overlong %u, encoded NUL *)
Example C15_example_flags :
  ue_run_full ex_cfg [ [37; 122; 122; 61; 37; 117; 48; 48; 52; 49; 38; 98; 61; 37; 48; 48] ]
  = ([ ([37; 122; 122], [65]); ([98], [0]) ],
     N.lor c_HTP_URLEN_INVALID_ENCODING (N.lor c_HTP_URLEN_OVERLONG_U c_HTP_URLEN_ENCODED_NUL), 400%Z).
Proof. vm_compute. reflexivity. Qed.

(* the premises of the two fragment theorems are satisfiable by non-trivial inputs *)
Example C15_example_wf : ud_wfb [97; 37; 52; 49; 43; 37; 50; 54] = true
  /\ ud_bytes ex_cfg [97; 37; 52; 49; 43; 37; 50; 54] = [97; 65; 32; 38].
Proof. vm_compute. split; reflexivity. Qed.
Example C15_example_nopct : ud_nopct [97; 0; 43; 98] = true
  /\ ud_urldecode_ex ex_cfg [97; 0; 43; 98] = ([97; 0; 32; 98], c_HTP_URLEN_RAW_NUL, 0%Z).
Proof. vm_compute. split; reflexivity. Qed.

(* the premise of the token-level theorems holds for every value of the enum; tokens of "a%4%u00e9%00b" with %u decoding:
   the malformed "%4%" keeps only its '%', %u00e9 is an overlong form, %00 is an encoded NUL *)
Example C15_example_handling : ud_handling_of ex_cfg = UdPreserve /\ ud_handling_of ex_cfg <> UdNoCase.
Proof. split; [reflexivity|discriminate]. Qed.
Example C15_example_tokens :
  ud_tokens ex_cfg [97; 37; 52; 37; 117; 48; 48; 101; 57; 37; 48; 48; 98]
  = [UtLit 97; UtBadHex 52 37; UtLit 52; UtPctU 48 48 101 57; UtPct 48 48; UtLit 98]
  /\ ud_urldecode_ex ex_cfg [97; 37; 52; 37; 117; 48; 48; 101; 57; 37; 48; 48; 98]
     = ([97; 37; 52; 233; 0; 98],
        N.lor c_HTP_URLEN_INVALID_ENCODING (N.lor c_HTP_URLEN_OVERLONG_U c_HTP_URLEN_ENCODED_NUL), 400%Z).
Proof. vm_compute. split; reflexivity. Qed.

(* a fresh parser is fresh; the regenerated defaults are the ones the reference names *)
Example C15_example_fresh : ue_fresh ue_init /\ c_ue_default_separator = 38 /\ c_ue_default_decode = true.
Proof. repeat split. Qed.
