Require Import Htp.Model.Base Htp.Model.MUrlenc Htp.Proof.PUrlenc.
Theorem C15_ud_nil : forall cfg fl st, ud_urldecode_from cfg fl st [] = ([], fl, st).
Proof. exact ud_nil. Qed.
Print Assumptions C15_ud_nil.
