(* C10 -- configured limits bound what the parser keeps.
   Only statements closed by `exact`, their assumptions, and examples. *)
Require Import Htp.Model.MConnTypes Htp.Model.MTxCommon Htp.Model.MReq Htp.Model.MRes Htp.Model.MConnp
               Htp.Spec.SConnp Htp.Proof.PReq Htp.Proof.PRes Htp.Proof.PConnp.

(* the full statement: in every reachable state what is retained for an unfinished line is within the hard limit
   and the connection holds at most max_tx + 1 transactions (max_tx > 0) *)
Definition C10_limits_full : Prop :=
  forall cb g ops, chk_C10 (g_field_limit_hard g) (g_max_tx g) (obs_run cb g connp_new ops) = true.

(* proved: the mechanisms. EVERY append to in_buf / out_buf goes through one function, which admits a new total
   (buffer + pending header) only if it does not exceed the hard limit; otherwise it fails (ERROR for the direction) *)
Theorem C10_req_buffer_bounded : forall g c c',
  req_buffer g c = (ST_OK, c') -> k_data (c_in c) <> None -> (k_consume (c_in c) < k_read (c_in c))%nat ->
  (rq_buf_size c' + rq_header_len c' <= g_field_limit_hard g)%nat.
Proof. exact req_buffer_bounded. Qed.
Theorem C10_req_buffer_keeps_bound : forall g c c',
  req_buffer g c = (ST_OK, c') ->
  (rq_buf_size c <= g_field_limit_hard g)%nat -> (rq_buf_size c' <= g_field_limit_hard g)%nat.
Proof. exact req_buffer_keeps_buf_bounded. Qed.
Theorem C10_res_buffer_bounded : forall g c c',
  rs_res_buffer g c = (ST_OK, c') ->
  (rs_blen c' + rs_hlen c' <= g_field_limit_hard g)%nat \/ c' = c.
Proof. exact res_buffer_bounded_or_id. Qed.
Print Assumptions C10_req_buffer_bounded.
Print Assumptions C10_res_buffer_bounded.

(* the only function that appends to the transaction list refuses beyond max_tx + 1, and adds at most one *)
Theorem C10_tx_create_bound : forall g c,
  0 < g_max_tx g -> length (c_txs c) <= S (g_max_tx g) ->
  length (c_txs (snd (connp_tx_create g c))) <= S (g_max_tx g).
Proof. exact connp_tx_create_bound. Qed.
Theorem C10_tx_create_one : forall g c,
  length (c_txs (snd (connp_tx_create g c))) = length (c_txs c) \/
  length (c_txs (snd (connp_tx_create g c))) = S (length (c_txs c)).
Proof. exact connp_tx_create_grows_by_one. Qed.
Print Assumptions C10_tx_create_bound.

(* recycling: after htp_connp_tx_freed no freed slot is left at the head of the list *)
Theorem C10_tx_freed_recycles : forall c,
  match c_txs (fst (connp_tx_freed c)) with None :: _ => False | _ => True end.
Proof. exact tx_freed_no_leading_null. Qed.
Print Assumptions C10_tx_freed_recycles.

(* the caps the folded / repeated header clauses refer to are the regenerated constants *)
Lemma C10_folded_cap : c_HTP_MAX_HEADER_FOLDED = 102400%Z. Proof. reflexivity. Qed.
Lemma C10_repetition_cap : c_HTP_MAX_HEADERS_REPETITIONS = 64%Z. Proof. reflexivity. Qed.

(* non-vacuity: a history that hits the hard limit (16) reports ERROR and never shows more than 16 buffered bytes *)
Example C10_example :
  let g := cp_make_cfg 1 16 2 false false 0 in
  let obs := obs_run (fun _ _ => CB_OK) g connp_new
               [OpOpen; OpReqData [71;69;84;32;47;97;97;97;97;97]%N; OpReqData [97;97;97;97;97;97;97;97;97;97]%N] in
  chk_C10 16 2 obs = true /\ map oc_rc obs = [(-1)%Z; c_HTP_STREAM_DATA; c_HTP_STREAM_ERROR] /\ map oc_ibuf obs = [0; 10; 10].
Proof. vm_compute. repeat split. Qed.

(* ---- the full statement is PROVED: every reachable state of the connection model, for every operation sequence, callback oracle and configuration
        (invariant lim_inv over the four buffers and the transaction list; frame lemmas for every state function of both directions; PLimits*.v) ---- *)
Require Import Htp.Proof.PLimits Htp.Proof.PLimitsRes Htp.Proof.PLimitsRun.
Theorem C10_limits : C10_limits_full.
Proof. exact C10_limits_obs. Qed.
Print Assumptions C10_limits.
(* the same on states rather than observations, and with the pending header counted together with the buffer *)
Theorem C10_limits_states : forall cb g ops,
  let c := fst (cp_run cb g connp_new ops) in
  (forall b, k_buf (c_in c) = Some b -> length b + olen (k_header (c_in c)) <= g_field_limit_hard g) /\
  (forall b, k_buf (c_out c) = Some b -> length b + olen (k_header (c_out c)) <= g_field_limit_hard g) /\
  (0 < g_max_tx g -> length (c_txs c) <= S (g_max_tx g)).
Proof. exact C10_limits_reachable. Qed.
Print Assumptions C10_limits_states.
