(* C12 -- path decoding and normalisation match the documented semantics for every path.
   This file contains only statements closed by `exact`, their assumptions, and examples. *)
Require Import Htp.Model.Base Htp.Model.MPath Htp.Spec.SPath.
Require Import Htp.Proof.PPathDot Htp.Proof.PPathLen Htp.Proof.PPathRfc Htp.Proof.PPathFlags.
Local Open Scope N_scope.

(* ---- dot-segment removal (model of htp_normalize_uri_path_inplace) ---- *)

(* the loop terminates within its fuel for every input (OutOfFuel excluded) *)
Theorem C12_dot_fuel_sufficient : forall s, dot_normalize_opt s <> None.
Proof. exact dot_fuel_sufficient. Qed.
Print Assumptions C12_dot_fuel_sufficient.

(* equality with RFC 3986 5.2.4 as the RFC writes it, with the one deviation the project's tests pin *)
Theorem C12_dotseg_rfc : forall s, rds s [] (dot_normalize s).
Proof. exact dot_normalize_rfc. Qed.
Print Assumptions C12_dotseg_rfc.

Theorem C12_no_dot_segment :
  forall s g, In g (dot_split_on pth_SL (dot_normalize s)) -> g <> [pth_DOT] /\ g <> [pth_DOT; pth_DOT].
Proof. exact normalize_no_dot_segment. Qed.
Print Assumptions C12_no_dot_segment.

Theorem C12_idempotent : forall s, dot_normalize (dot_normalize s) = dot_normalize s.
Proof. exact dot_normalize_idempotent. Qed.
Print Assumptions C12_idempotent.

(* ---- never longer than the raw path: every stage, every configuration ---- *)
Theorem C12_length_decode : forall c s st, (length (fst (pth_decode_path_st c s st)) <= length s)%nat.
Proof. exact pth_decode_path_length. Qed.
Theorem C12_length_utf8 : forall c s st, (length (fst (utf8_decode_path c s st)) <= length s)%nat.
Proof. exact utf8_decode_path_length. Qed.
Theorem C12_length_dotseg : forall s, (length (dot_normalize s) <= length s)%nat.
Proof. exact dot_normalize_length. Qed.
Theorem C12_length : forall c s, (length (pth_pipeline c s) <= length s)%nat.
Proof. exact pth_pipeline_length. Qed.
Print Assumptions C12_length.

(* ---- the decoder against the escape tokeniser: output and indicators ---- *)
Theorem C12_decode_path_spec : forall c s, fst (pth_decode_path c s) = pth_decode_spec c s.
Proof. exact pth_decode_path_spec. Qed.
Print Assumptions C12_decode_path_spec.

Theorem C12_decoder_flags :
  forall c s, fst (snd (pth_decode_path c s)) = pth_lor_all (map (pth_tok_flags c) (pth_lex c s)).
Proof. exact pth_decode_path_flags. Qed.
Print Assumptions C12_decoder_flags.

(* each indicator is raised exactly when the corresponding construct occurs (both directions), raw NUL included *)
Theorem C12_decoder_flags_exact : forall c s,
  let st := snd (pth_decode_path c s) in
  let occurs (p : pth_tok -> bool) := exists t, In t (pth_lex c s) /\ p t = true in
  (pth_has c_HTP_PATH_INVALID_ENCODING st = true <-> occurs pth_raises_invalid) /\
  (pth_has c_HTP_PATH_RAW_NUL st = true <-> occurs pth_raises_rawnul) /\
  (pth_has c_HTP_PATH_ENCODED_NUL st = true <-> occurs (pth_raises_encnul c)) /\
  (pth_has c_HTP_PATH_ENCODED_SEPARATOR st = true <-> occurs (pth_raises_encsep c)) /\
  (pth_has c_HTP_PATH_OVERLONG_U st = true <-> occurs pth_raises_overlong_u) /\
  (pth_has c_HTP_PATH_HALF_FULL_RANGE st = true <-> occurs pth_raises_halffull).
Proof. exact pth_decoder_flags_exact. Qed.
Print Assumptions C12_decoder_flags_exact.

(* ---- examples (non-vacuity; the pinned deviation; the fixed raw-NUL finding) ---- *)
Definition ex_generic : dcfg := mk_dcfg false false false false false false 0 false false false 63 0 0 0 0 0 0 0.
Definition ex_ids : dcfg := mk_dcfg true true true true false true 0 true false false 63 0 0 0 0 0 0 0.

(* "one/." -> "one", "one/.." -> "", "one/../" -> "" (test_utils.cpp), and an ordinary case *)
Example C12_pinned_1 : dot_normalize [111; 110; 101; 47; 46] = [111; 110; 101].
Proof. vm_compute. reflexivity. Qed.
Example C12_pinned_2 : dot_normalize [111; 110; 101; 47; 46; 46] = [] /\ dot_normalize [111; 110; 101; 47; 46; 46; 47] = [].
Proof. vm_compute. split; reflexivity. Qed.
Example C12_dot_example : dot_normalize [47; 97; 47; 46; 46; 47; 98; 47; 46; 47; 99] = [47; 98; 47; 99].
Proof. vm_compute. reflexivity. Qed.

(* "/a<NUL>b%00c": raw NUL and encoded NUL are both reported (HTP_PATH_RAW_NUL was never raised before the fix) *)
Example C12_rawnul_example :
  let st := snd (pth_decode_path ex_generic [47; 97; 0; 98; 37; 48; 48; 99]) in
  pth_has c_HTP_PATH_RAW_NUL st = true /\ pth_has c_HTP_PATH_ENCODED_NUL st = true /\
  pth_has c_HTP_PATH_INVALID_ENCODING st = false.
Proof. vm_compute. repeat split; reflexivity. Qed.

(* IDS personality: "/A%2F%u002e./\B/%c0%afx" -> "/b//x"  (lower-casing, %u, separators, dot segments; the '/' that the
   overlong UTF-8 pair decodes to appears after separator compression) *)
Example C12_pipeline_example :
  pth_pipeline ex_ids [47; 65; 37; 50; 70; 37; 117; 48; 48; 50; 101; 46; 47; 92; 66; 47; 37; 99; 48; 37; 97; 102; 120]
  = [47; 98; 47; 47; 120].
Proof. vm_compute. reflexivity. Qed.

Example C12_lex_example :
  pth_lex ex_ids [37; 50; 102; 37; 117; 48; 48; 37; 122] = [PT_pct 47; PT_bad; PT_lit 117; PT_lit 48; PT_lit 48; PT_bad; PT_lit 122].
Proof. vm_compute. reflexivity. Qed.
