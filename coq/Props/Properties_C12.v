(* C12 -- path decoding and normalisation match the documented semantics for every path.
   This file contains only statements closed by `exact`, their assumptions, and examples. *)
Require Import Htp.Model.Base Htp.Model.MPath Htp.Spec.SPath.
Require Import Htp.Proof.PPathDot Htp.Proof.PPathLen Htp.Proof.PPathRfc Htp.Proof.PPathFlags Htp.Proof.PPathUtf8 Htp.Proof.PPathPipe.
Local Open Scope N_scope.

(* ---- dot-segment removal (model of htp_normalize_uri_path_inplace) ---- *)

(* the loop terminates within its fuel for every input (OutOfFuel excluded) *)
Theorem C12_dot_fuel_sufficient : forall s, dot_normalize_opt s <> None.
Proof. exact dot_fuel_sufficient. Qed.
Print Assumptions C12_dot_fuel_sufficient.

(* equality with RFC 3986 5.2.4 as the RFC writes it, with the one deviation the project's tests pin *)
Theorem C12_dotseg_rfc : forall s, rds s [] (dot_normalize s).
Proof. exact dot_normalize_rfc. Qed.
Print Assumptions C12_dotseg_rfc.

Theorem C12_no_dot_segment :
  forall s g, In g (dot_split_on pth_SL (dot_normalize s)) -> g <> [pth_DOT] /\ g <> [pth_DOT; pth_DOT].
Proof. exact normalize_no_dot_segment. Qed.
Print Assumptions C12_no_dot_segment.

Theorem C12_idempotent : forall s, dot_normalize (dot_normalize s) = dot_normalize s.
Proof. exact dot_normalize_idempotent. Qed.
Print Assumptions C12_idempotent.

(* ---- never longer than the raw path: every stage, every configuration ---- *)
Theorem C12_length_decode : forall c s st, (length (fst (pth_decode_path_st c s st)) <= length s)%nat.
Proof. exact pth_decode_path_length. Qed.
Theorem C12_length_utf8 : forall c s st, (length (fst (utf8_decode_path c s st)) <= length s)%nat.
Proof. exact utf8_decode_path_length. Qed.
Theorem C12_length_dotseg : forall s, (length (dot_normalize s) <= length s)%nat.
Proof. exact dot_normalize_length. Qed.
Theorem C12_length : forall c s, (length (pth_pipeline c s) <= length s)%nat.
Proof. exact pth_pipeline_length. Qed.
Print Assumptions C12_length.

(* ---- the decoder against the escape tokeniser: output and indicators ---- *)
Theorem C12_decode_path_spec : forall c s, fst (pth_decode_path c s) = pth_decode_spec c s.
Proof. exact pth_decode_path_spec. Qed.
Print Assumptions C12_decode_path_spec.

Theorem C12_decoder_flags :
  forall c s, fst (snd (pth_decode_path c s)) = pth_lor_all (map (pth_tok_flags c) (pth_lex c s)).
Proof. exact pth_decode_path_flags. Qed.
Print Assumptions C12_decoder_flags.

(* each indicator is raised exactly when the corresponding construct occurs (both directions), raw NUL included *)
Theorem C12_decoder_flags_exact : forall c s,
  let st := snd (pth_decode_path c s) in
  let occurs (p : pth_tok -> bool) := exists t, In t (pth_lex c s) /\ p t = true in
  (pth_has c_HTP_PATH_INVALID_ENCODING st = true <-> occurs pth_raises_invalid) /\
  (pth_has c_HTP_PATH_RAW_NUL st = true <-> occurs pth_raises_rawnul) /\
  (pth_has c_HTP_PATH_ENCODED_NUL st = true <-> occurs (pth_raises_encnul c)) /\
  (pth_has c_HTP_PATH_ENCODED_SEPARATOR st = true <-> occurs (pth_raises_encsep c)) /\
  (pth_has c_HTP_PATH_OVERLONG_U st = true <-> occurs pth_raises_overlong_u) /\
  (pth_has c_HTP_PATH_HALF_FULL_RANGE st = true <-> occurs pth_raises_halffull).
Proof. exact pth_decoder_flags_exact. Qed.
Print Assumptions C12_decoder_flags_exact.

(* ---- the UTF-8 stage against the declarative tokeniser (the regenerated DFA tables implement it) ---- *)
(* premises: the input consists of bytes; UTF8_INVALID is not already set in the incoming flags (the C tests tx->flags) *)
Theorem C12_utf8_validate_spec : forall s st,
  all_byte s = true -> pth_has c_HTP_PATH_UTF8_INVALID st = false ->
  fst (utf8_validate_path s st) = N.lor (fst st) (utf8_spec_validate s).
Proof. exact utf8_validate_spec. Qed.
Print Assumptions C12_utf8_validate_spec.

Theorem C12_utf8_decode_spec : forall c s st,
  all_byte s = true -> pth_has c_HTP_PATH_UTF8_INVALID st = false ->
  fst (utf8_decode_path c s st) = fst (utf8_spec_decode c s) /\
  fst (snd (utf8_decode_path c s st)) = N.lor (fst st) (snd (utf8_spec_decode c s)).
Proof. exact utf8_decode_spec. Qed.
Print Assumptions C12_utf8_decode_spec.

(* UTF8_INVALID / OVERLONG / HALF_FULL_RANGE / VALID are raised exactly when a broken sequence / an overlong sequence /
   a code point in the half-full-width window occurs / a multi-byte sequence occurs and nothing is broken *)
Theorem C12_utf8_flags_exact : forall dec toks,
  let f := (utf8_spec_flags dec toks, 0%Z) in
  pth_has c_HTP_PATH_UTF8_INVALID f = existsb utf8_is_bad toks /\
  pth_has c_HTP_PATH_UTF8_OVERLONG f = existsb utf8_is_overlong toks /\
  pth_has c_HTP_PATH_HALF_FULL_RANGE f = existsb (utf8_is_halffull dec) toks /\
  pth_has c_HTP_PATH_UTF8_VALID f = existsb utf8_is_seq toks && negb (existsb utf8_is_bad toks).
Proof. exact utf8_spec_flags_exact. Qed.
Print Assumptions C12_utf8_flags_exact.

(* ---- the whole pipeline: decoder spec, then UTF-8 spec (decode or validate), then the RFC relation ---- *)
Theorem C12_pipeline_spec : forall c s, pth_wf c s = true ->
  let p1 := pth_decode_spec c s in
  let '(p2, f2) := pth_spec_stage2 c p1 in
  rds p2 [] (pth_pipeline c s) /\
  fst (snd (pth_pipeline_st c s)) = N.lor (pth_decoder_flags_spec c s) f2.
Proof. exact pth_pipeline_spec. Qed.
Print Assumptions C12_pipeline_spec.

(* ---- examples (non-vacuity; the pinned deviation; the fixed raw-NUL finding) ---- *)
Definition ex_generic : dcfg := mk_dcfg false false false false false false 0 false false false 63 0 0 0 0 0 0 0.
Definition ex_ids : dcfg := mk_dcfg true true true true false true 0 true false false 63 0 0 0 0 0 0 0.

(* "one/." -> "one", "one/.." -> "", "one/../" -> "" (test_utils.cpp), and an ordinary case *)
Example C12_pinned_1 : dot_normalize [111; 110; 101; 47; 46] = [111; 110; 101].
Proof. vm_compute. reflexivity. Qed.
Example C12_pinned_2 : dot_normalize [111; 110; 101; 47; 46; 46] = [] /\ dot_normalize [111; 110; 101; 47; 46; 46; 47] = [].
Proof. vm_compute. split; reflexivity. Qed.
Example C12_dot_example : dot_normalize [47; 97; 47; 46; 46; 47; 98; 47; 46; 47; 99] = [47; 98; 47; 99].
Proof. vm_compute. reflexivity. Qed.

(* "/a<NUL>b%00c": raw NUL and encoded NUL are both reported (HTP_PATH_RAW_NUL was never raised before the fix) *)
Example C12_rawnul_example :
  let st := snd (pth_decode_path ex_generic [47; 97; 0; 98; 37; 48; 48; 99]) in
  pth_has c_HTP_PATH_RAW_NUL st = true /\ pth_has c_HTP_PATH_ENCODED_NUL st = true /\
  pth_has c_HTP_PATH_INVALID_ENCODING st = false.
Proof. vm_compute. repeat split; reflexivity. Qed.

(* IDS personality: "/A%2F%u002e./\B/%c0%afx" -> "/b//x"  (lower-casing, %u, separators, dot segments; the '/' that the
   overlong UTF-8 pair decodes to appears after separator compression) *)
Example C12_pipeline_example :
  pth_pipeline ex_ids [47; 65; 37; 50; 70; 37; 117; 48; 48; 50; 101; 46; 47; 92; 66; 47; 37; 99; 48; 37; 97; 102; 120]
  = [47; 98; 47; 47; 120].
Proof. vm_compute. reflexivity. Qed.

Example C12_lex_example :
  pth_lex ex_ids [37; 50; 102; 37; 117; 48; 48; 37; 122] = [PT_pct 47; PT_bad; PT_lit 117; PT_lit 48; PT_lit 48; PT_bad; PT_lit 122].
Proof. vm_compute. reflexivity. Qed.

(* premises are satisfiable; "/%c0%af%ef%bc%8f" under IDS: overlong and full-width slashes, both reported *)
Example C12_wf_example : pth_wf ex_ids [47; 37; 99; 48; 37; 97; 102; 37; 101; 102; 37; 98; 99; 37; 56; 102] = true.
Proof. vm_compute. reflexivity. Qed.
Example C12_utf8_example :
  utf8_lex false [47; 192; 175; 239; 188; 143; 237; 160; 128; 226; 130]
  = [UT_ascii 47; UT_seq 2 47; UT_seq 3 65295; UT_bad; UT_bad; UT_bad; UT_trunc].
Proof. vm_compute. reflexivity. Qed.

(* ==== HISTORY LEVEL (PUriHist*.v): for a request of the wire grammar whose target is u, delivered in ANY chunking / folding: the path the caller sees,
   t.parsed_uri.path, is pth_pipeline (the decode + normalise pipeline of the theorems above) applied to the raw path component of u under the connection's
   path-decoder configuration (an ARBITRARY decoder record: every personality switch free); it is no longer than the raw path, has no "." / ".." segment, is a
   fixed point of the normaliser; the six path-only indicator bits on the transaction are EXACTLY those the pipeline raises, the three shared with the generic
   decoder are at least the pipeline's (exactly those, when the target has no authority and no fragment); query kept raw, scheme lower-cased. ==== *)
Require Import Htp.Model.Base Htp.Model.MBstr Htp.Model.MConnTypes Htp.Model.MTxCommon Htp.Model.MReqLine Htp.Model.MReqUri Htp.Model.MTxReq.
Require Import Htp.Model.MReq Htp.Model.MRes Htp.Model.MConnp Htp.Model.MUri Htp.Model.MPath.
Require Import Htp.Spec.SWire Htp.Spec.SUri Htp.Spec.SPath Htp.Proof.PUri Htp.Proof.PPathDot Htp.Proof.PPathLen.
Require Import Htp.Proof.PWire Htp.Proof.PWireHdr Htp.Proof.PWireBlock Htp.Proof.PWireConn Htp.Proof.PWireExch.
Require Import Htp.Proof.PWireRun Htp.Proof.PWirePres Htp.Proof.PWireGlue Htp.Proof.PSeg Htp.Proof.PSegLine Htp.Proof.PSegHdr Htp.Proof.PSegGen Htp.Proof.PSegRun Htp.Proof.PSegFold Htp.Proof.PSegPipe.
Require Import Htp.Proof.PUriHist Htp.Proof.PUriHistTx.
Require Import Htp.Proof.PUriHistThm.
Theorem C12_at_history_level : forall cb g r (cuts : list (list bytes)) (chunks : list bytes),
  wr_all_ok cb -> g_allow_space_uri g = false -> wr_request_ok r = true -> sg_cuts_ok r cuts = true -> sg_fold_fits g r cuts = true ->
  Forall (fun x => x <> []) chunks -> concat chunks = sg_fold_wire r cuts ->
  exists t, c_txs (fst (cp_run cb g connp_new (OpOpen :: map OpReqData chunks))) = [Some t] /\
            uh_c13 (wq_uri r) t /\ uh_c12 g (wq_uri r) t.
Proof. exact uh_request_uri_fold_chunking. Qed.
Print Assumptions C12_at_history_level.
