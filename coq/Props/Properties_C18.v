(* C18 -- allocation failure anywhere is survived without memory unsafety (on the ownership model MOwn).
   This file contains only statements closed by `exact`, their assumptions, and Examples.
   The failure schedule is the field oos_sched of the state s, so "forall s" quantifies over every schedule;
   ow_own ids s says that the heap of s consists exactly of the cells ids; F is an arbitrary frame (the
   caller's other cells).  ow_nofault m s: m does not fault (no double/invalid free, no use after free, no
   NULL dereference).  ow_clean_to F m s: m does not fault and leaves exactly F (F = []: the empty heap). *)
Require Import Htp.Model.Base Htp.Model.MOwn Htp.Model.MOwnCases Htp.Proof.POwn.

Theorem C18_then_destroy_clean_conn_create F s :
  ow_own F s -> ow_clean_to F (c <- ow_conn_create ;; ow_conn_destroy c) s.
Proof. exact (ow_then_destroy_clean_conn_create F s). Qed.
Print Assumptions C18_then_destroy_clean_conn_create.

Theorem C18_safe_conn_open c hc hs F s :
  ocn_self c <> None -> ocn_client c = None -> ocn_server c = None -> ow_own (fp_conn c ++ F) s ->
  ow_nofault (ow_conn_open c hc hs) s.
Proof. exact (ow_safe_conn_open c hc hs F s). Qed.
Print Assumptions C18_safe_conn_open.

Theorem C18_then_destroy_clean_conn_open cp c hc hs F s :
  wf_conn cp c -> connp_in cp c F -> ocn_client c = None -> ocn_server c = None -> ow_own (fp_conn c ++ F) s ->
  ow_clean_to F (r <- ow_conn_open c hc hs ;; ow_conn_destroy (Some (snd r))) s.
Proof. exact (ow_then_destroy_clean_conn_open cp c hc hs F s). Qed.
Print Assumptions C18_then_destroy_clean_conn_open.

Theorem C18_safe_list_push l F s :
  wf_lsto (Some l) -> ow_own (fp_lsto (Some l) ++ F) s -> ow_nofault (ow_list_push l) s.
Proof. exact (ow_safe_list_push l F s). Qed.
Print Assumptions C18_safe_list_push.

Theorem C18_then_destroy_clean_list_push l F s :
  wf_lsto (Some l) -> ow_own (fp_lsto (Some l) ++ F) s ->
  ow_clean_to F (r <- ow_list_push l ;; ow_list_destroy (Some (snd r))) s.
Proof. exact (ow_then_destroy_clean_list_push l F s). Qed.
Print Assumptions C18_then_destroy_clean_list_push.

Theorem C18_then_destroy_clean_list_create n F s :
  ow_own F s -> ow_clean_to F (l <- ow_list_create n ;; ow_list_destroy l) s.
Proof. exact (ow_then_destroy_clean_list_create n F s). Qed.
Print Assumptions C18_then_destroy_clean_list_create.

Theorem C18_then_destroy_clean_table_create n F s :
  ow_own F s -> ow_clean_to F (t <- ow_table_create n ;; ow_table_destroy t) s.
Proof. exact (ow_then_destroy_clean_table_create n F s). Qed.
Print Assumptions C18_then_destroy_clean_table_create.

Theorem C18_safe_table_add t key F s :
  wf_tbl t -> tbl_ptrs t -> ow_own (fp_tbl t ++ F) s -> (key = None \/ live_in key s) -> ow_nofault (ow_table_add t key) s.
Proof. exact (ow_safe_table_add t key F s). Qed.
Print Assumptions C18_safe_table_add.

Theorem C18_then_destroy_clean_table_add t key F s :
  wf_tbl t -> tbl_ptrs t -> ow_own (fp_tbl t ++ F) s -> (key = None \/ live_in key s) ->
  ow_clean_to F (r <- ow_table_add t key ;; ow_table_destroy (Some (snd r))) s.
Proof. exact (ow_then_destroy_clean_table_add t key F s). Qed.
Print Assumptions C18_then_destroy_clean_table_add.

Theorem C18_then_destroy_clean_table_addn t k F s :
  wf_tbl t -> tbl_ptrs t -> ow_own (fp_tbl t ++ k :: F) s ->
  ow_clean_to F (r <- ow_table_addn t (Some k) ;;
                 (if fst r then ow_ret tt else ow_free (Some k)) ;;; ow_table_destroy (Some (snd r))) s.
Proof. exact (ow_then_destroy_clean_table_addn t k F s). Qed.
Print Assumptions C18_then_destroy_clean_table_addn.

Theorem C18_then_destroy_clean_table_addk t k F s :
  wf_tbl t -> tbl_ptrs t -> ow_own (fp_tbl t ++ F) s ->
  ow_clean_to F (r <- ow_table_addk t (Some k) ;; ow_table_destroy (Some (snd r))) s.
Proof. exact (ow_then_destroy_clean_table_addk t k F s). Qed.
Print Assumptions C18_then_destroy_clean_table_addk.

Theorem C18_then_destroy_clean_table_clear t F s :
  wf_tbl t -> tbl_ptrs t -> ow_own (fp_tbl t ++ F) s ->
  ow_clean_to F (t1 <- ow_table_clear t ;; ow_table_destroy (Some t1)) s.
Proof. exact (ow_then_destroy_clean_table_clear t F s). Qed.
Print Assumptions C18_then_destroy_clean_table_clear.

Theorem C18_then_destroy_clean_bstr_dup b F s :
  ow_own (b :: F) s -> ow_clean_to F (d <- ow_bstr_dup (Some b) ;; ow_free d ;;; ow_free (Some b)) s.
Proof. exact (ow_then_destroy_clean_bstr_dup b F s). Qed.
Print Assumptions C18_then_destroy_clean_bstr_dup.

Theorem C18_then_destroy_clean_bstr_expand b w sh F s :
  ow_own (b :: F) s ->
  ow_clean_to F (n <- ow_bstr_expand (Some b) w sh ;; if ow_isnull n then ow_free (Some b) else ow_free n) s.
Proof. exact (ow_then_destroy_clean_bstr_expand b w sh F s). Qed.
Print Assumptions C18_then_destroy_clean_bstr_expand.

Theorem C18_then_destroy_clean_bstr_add_mem b w fits F s :
  ow_own (b :: F) s ->
  ow_clean_to F (n <- ow_bstr_add_mem (Some b) w fits ;; if ow_isnull n then ow_free (Some b) else ow_free n) s.
Proof. exact (ow_then_destroy_clean_bstr_add_mem b w fits F s). Qed.
Print Assumptions C18_then_destroy_clean_bstr_add_mem.

Theorem C18_then_destroy_clean_builder_create F s :
  ow_own F s -> ow_clean_to F (b <- ow_builder_create ;; ow_builder_destroy b) s.
Proof. exact (ow_then_destroy_clean_builder_create F s). Qed.
Print Assumptions C18_then_destroy_clean_builder_create.

Theorem C18_then_destroy_clean_builder_append bb F s :
  wf_bb bb -> ow_own (fp_bb bb ++ F) s ->
  ow_clean_to F (r <- ow_builder_append_mem bb ;; ow_builder_destroy (Some (snd r))) s.
Proof. exact (ow_then_destroy_clean_builder_append bb F s). Qed.
Print Assumptions C18_then_destroy_clean_builder_append.

Theorem C18_then_destroy_clean_builder_to_str bb F s :
  wf_bb bb -> ow_own (fp_bb bb ++ F) s ->
  ow_clean_to F (r <- ow_builder_to_str bb ;; ow_free r ;;; ow_builder_destroy (Some bb)) s.
Proof. exact (ow_then_destroy_clean_builder_to_str bb F s). Qed.
Print Assumptions C18_then_destroy_clean_builder_to_str.

Theorem C18_then_destroy_clean_builder_clear bb F s :
  wf_bb bb -> ow_own (fp_bb bb ++ F) s ->
  ow_clean_to F (b1 <- ow_builder_clear bb ;; ow_builder_destroy (Some b1)) s.
Proof. exact (ow_then_destroy_clean_builder_clear bb F s). Qed.
Print Assumptions C18_then_destroy_clean_builder_clear.

Theorem C18_then_destroy_clean_hook_register h F s :
  wf_hooko h -> ow_own (fp_hooko h ++ F) s ->
  ow_clean_to F (r <- ow_hook_register h ;; ow_hook_destroy (snd r)) s.
Proof. exact (ow_then_destroy_clean_hook_register h F s). Qed.
Print Assumptions C18_then_destroy_clean_hook_register.

Theorem C18_then_destroy_clean_hook_copy h F s :
  wf_hooko h -> ow_own (fp_hooko h ++ F) s ->
  ow_clean_to F (c <- ow_hook_copy h ;; ow_hook_destroy c ;;; ow_hook_destroy h) s.
Proof. exact (ow_then_destroy_clean_hook_copy h F s). Qed.
Print Assumptions C18_then_destroy_clean_hook_copy.

Theorem C18_then_destroy_clean_hook_create F s :
  ow_own F s -> ow_clean_to F (h <- ow_hook_create ;; ow_hook_destroy h) s.
Proof. exact (ow_then_destroy_clean_hook_create F s). Qed.
Print Assumptions C18_then_destroy_clean_hook_create.

Theorem C18_then_destroy_clean_connp_create F s :
  ow_own F s -> ow_clean_to F (p <- ow_connp_create ;; ow_connp_destroy_all p) s.
Proof. exact (ow_then_destroy_clean_connp_create F s). Qed.
Print Assumptions C18_then_destroy_clean_connp_create.

Theorem C18_then_destroy_clean_tx_create p c F s :
  ow_world p c -> ow_own (fp_connp p ++ F) s ->
  ow_clean_to F (r <- ow_tx_create (ocp_self p) c ;; ow_connp_destroy_all (Some (ocp_set_conn p (Some (snd r))))) s.
Proof. exact (ow_then_destroy_clean_tx_create p c F s). Qed.
Print Assumptions C18_then_destroy_clean_tx_create.

Theorem C18_safe_tx_create p c F s :
  ow_world p c -> ow_own (fp_connp p ++ F) s -> ow_nofault (ow_tx_create (ocp_self p) c) s.
Proof. exact (ow_safe_tx_create p c F s). Qed.
Print Assumptions C18_safe_tx_create.

Theorem C18_safe_tx_destroy_incomplete tx F s :
  wf_tx tx -> ow_own (fp_tx tx ++ F) s -> otx_conn tx <> None -> otx_connp tx <> None ->
  (forall j, cnto j (otx_conn tx) <= cnt j F) -> (forall j, cnto j (otx_connp tx) <= cnt j F) ->
  ow_clean_to F (ow_tx_destroy_incomplete tx) s.
Proof. exact (ow_safe_tx_destroy_incomplete tx F s). Qed.
Print Assumptions C18_safe_tx_destroy_incomplete.

Theorem C18_then_destroy_clean_process_request_header on sh p c tx F s :
  ow_world p c -> wf_tx tx -> otx_conn tx = ocn_self c -> otx_connp tx = ocp_self p -> ocn_txl c <> None ->
  ow_own (fp_connp p ++ fp_tx tx ++ F) s ->
  ow_clean_to F (r <- ow_process_request_header on sh (ocp_self p) c tx ;;
                 ow_connp_destroy_all (Some (ow_put_tx p (snd (fst r)) (snd r)))) s.
Proof. exact (ow_then_destroy_clean_process_request_header on sh p c tx F s). Qed.
Print Assumptions C18_then_destroy_clean_process_request_header.

Theorem C18_safe_process_request_header on sh p c tx F s :
  ow_world p c -> wf_tx tx -> ow_own (fp_connp p ++ fp_tx tx ++ F) s ->
  ow_nofault (ow_process_request_header on sh (ocp_self p) c tx) s.
Proof. exact (ow_safe_process_request_header on sh p c tx F s). Qed.
Print Assumptions C18_safe_process_request_header.

Theorem C18_then_destroy_clean_auth_basic sh hdr p c tx F s :
  ow_world p c -> wf_tx tx -> otx_conn tx = ocn_self c -> otx_connp tx = ocp_self p -> ocn_txl c <> None ->
  otx_auth_user tx = None -> otx_auth_pass tx = None ->
  ohd_self hdr <> None -> ohd_value hdr <> None -> (forall j, cnto j (ohd_self hdr) + cnto j (ohd_value hdr) <= cnt j F) ->
  ow_own (fp_connp p ++ fp_tx tx ++ F) s ->
  ow_clean_to F (r <- ow_auth_basic sh hdr tx ;; ow_connp_destroy_all (Some (ow_put_tx p c (snd r)))) s.
Proof. exact (ow_then_destroy_clean_auth_basic sh hdr p c tx F s). Qed.
Print Assumptions C18_then_destroy_clean_auth_basic.

Theorem C18_then_destroy_clean_part_create parser F s :
  ow_own F s -> parser <> None -> (forall j, cnto j parser <= cnt j F) ->
  ow_clean_to F (p <- ow_part_create parser ;; ow_part_destroy p) s.
Proof. exact (ow_then_destroy_clean_part_create parser F s). Qed.
Print Assumptions C18_then_destroy_clean_part_create.

Theorem C18_safe_part_parse_cd sh p F s :
  wf_part p -> ow_own (fp_part p ++ F) s -> opt_parser p <> None -> (forall j, cnto j (opt_parser p) <= cnt j F) ->
  ow_nofault (ow_part_parse_cd sh p) s.
Proof. exact (ow_safe_part_parse_cd sh p F s). Qed.
Print Assumptions C18_safe_part_parse_cd.

Theorem C18_then_destroy_clean_part_parse_cd sh p F s :
  wf_part p -> ow_own (fp_part p ++ F) s -> opt_parser p <> None -> (forall j, cnto j (opt_parser p) <= cnt j F) ->
  ow_clean_to F (r <- ow_part_parse_cd sh p ;; ow_part_destroy (Some (snd r))) s.
Proof. exact (ow_then_destroy_clean_part_parse_cd sh p F s). Qed.
Print Assumptions C18_then_destroy_clean_part_parse_cd.

Theorem C18_then_destroy_clean_req_buffer on sh in_tx p F s :
  wf_connp p -> ocp_conn p <> None -> ow_own (fp_connp p ++ F) s -> live_in in_tx s ->
  ow_clean_to F (r <- ow_req_buffer on sh in_tx p ;; ow_connp_destroy_all (Some (snd r))) s.
Proof. exact (ow_then_destroy_clean_req_buffer on sh in_tx p F s). Qed.
Print Assumptions C18_then_destroy_clean_req_buffer.

Theorem C18_then_destroy_clean_log on p c F s :
  ow_world p c -> ow_own (fp_connp p ++ F) s ->
  ow_clean_to F (c1 <- ow_log_msg on (ocp_self p) c ;; ow_connp_destroy_all (Some (ocp_set_conn p (Some c1)))) s.
Proof. exact (ow_then_destroy_clean_log on p c F s). Qed.
Print Assumptions C18_then_destroy_clean_log.

Theorem C18_create_open_destroy_clean hc hs s :
  ow_own [] s ->
  ow_wp (c <- ow_conn_create ;;
         match c with
         | None => ow_ret tt
         | Some c => r <- ow_conn_open c hc hs ;; ow_conn_destroy (Some (snd r))
         end) (fun _ s' => oos_live s' = []) s.
Proof. exact (ow_create_open_destroy_clean hc hs s). Qed.
Print Assumptions C18_create_open_destroy_clean.

Theorem C18_connp_lifecycle_from_init sched :
  ow_wp (p <- ow_connp_create ;; ow_connp_destroy_all p) (fun _ s' => oos_live s' = []) (ow_init sched).
Proof. exact (ow_connp_lifecycle_from_init sched). Qed.
Print Assumptions C18_connp_lifecycle_from_init.

Theorem C18_conn_lifecycle_from_init sched hc hs :
  ow_wp (c <- ow_conn_create ;;
         match c with
         | None => ow_ret tt
         | Some c => r <- ow_conn_open c hc hs ;; ow_conn_destroy (Some (snd r))
         end) (fun _ s' => oos_live s' = []) (ow_init sched).
Proof. exact (ow_conn_lifecycle_from_init sched hc hs). Qed.
Print Assumptions C18_conn_lifecycle_from_init.


(* ---- the three repaired defects (355cad8, d8530c5, b69f563) and the two repaired in this round (596a86d, faef489):
   the model of the code BEFORE each fix faults (or leaks) under a concrete schedule; the model of the current code
   does not.  Case arguments as in Model/MOwnCases.v; k = ordinal of the failing allocation in the observed window. *)

(* htp_conn_open: strdup(server_addr) fails (k = 2) -> client_addr freed twice (fault 1 = free of a non-live cell) *)
Example C18_conn_open_old_refuted : ow_res_fault (ow_case_conn_open_gen true [1; 1] 2) = 1.
Proof. vm_compute. reflexivity. Qed.
Example C18_conn_open_fixed_ok :
  ow_res_fault (ow_case_conn_open_gen false [1; 1] 2) = 0 /\ ow_res_leaked (ow_case_conn_open_gen false [1; 1] 2) = 0.
Proof. vm_compute. split; reflexivity. Qed.

(* htp_parse_authorization_basic: the password copy fails (k = 4) -> request_auth_username freed twice *)
Example C18_auth_basic_old_refuted : ow_res_fault (ow_case_auth_gen true [0; 0; 1] 4) = 1.
Proof. vm_compute. reflexivity. Qed.
Example C18_auth_basic_fixed_ok :
  ow_res_fault (ow_case_auth_gen false [0; 0; 1] 4) = 0 /\ ow_res_leaked (ow_case_auth_gen false [0; 0; 1] 4) = 0.
Proof. vm_compute. split; reflexivity. Qed.

(* htp_mpart_part_parse_c_d: the filename copy fails (k = 2) -> htp_mpart_part_destroy reads the released file (fault 2 = use after free) *)
Example C18_part_parse_cd_old_refuted : ow_res_fault (ow_case_part_cd_gen true [1; 1; 0; 2] 2) = 2.
Proof. vm_compute. reflexivity. Qed.
Example C18_part_parse_cd_fixed_ok :
  ow_res_fault (ow_case_part_cd_gen false [1; 1; 0; 2] 2) = 0 /\ ow_res_leaked (ow_case_part_cd_gen false [1; 1; 0; 2] 2) = 1.
Proof. vm_compute. split; reflexivity. Qed.
(* (the one cell left in that case is the parser object of the harness, which is not released inside the window) *)

(* htp_tx_create: the 17th transaction needs the list to grow and the realloc fails (k = 9) -> the transaction is leaked *)
Example C18_tx_create_old_refuted :
  ow_res_fault (ow_case_tx_create_gen false [16; 1] 9) = 0 /\ 0 < ow_res_leaked (ow_case_tx_create_gen false [16; 1] 9).
Proof. vm_compute. split; [reflexivity | repeat constructor]. Qed.
Example C18_tx_create_fixed_ok :
  ow_res_fault (ow_case_tx_create_gen true [16; 1] 9) = 0 /\ ow_res_leaked (ow_case_tx_create_gen true [16; 1] 9) = 0.
Proof. vm_compute. split; reflexivity. Qed.

(* bstr_builder_append_mem: the 17th piece needs the list to grow and the realloc fails -> the piece is leaked *)
Example C18_builder_append_old_refuted :
  ow_res_fault (ow_case_builder_gen false [17; 0] 21) = 0 /\ 0 < ow_res_leaked (ow_case_builder_gen false [17; 0] 21).
Proof. vm_compute. split; [reflexivity | repeat constructor]. Qed.
Example C18_builder_append_fixed_ok :
  ow_res_fault (ow_case_builder_gen true [17; 0] 21) = 0 /\ ow_res_leaked (ow_case_builder_gen true [17; 0] 21) = 0.
Proof. vm_compute. split; reflexivity. Qed.

(* non-vacuity: the premises are met by the states the constructors build (from the empty heap, any schedule):
   see C18_connp_lifecycle_from_init / C18_conn_lifecycle_from_init above; and a run that exercises merging,
   logging and list growth ends with the empty heap *)
Example C18_header_run_example :
  ow_res_fault (ow_case_header [1; 1; 1; 0; 0; 0; 0; 0; 0; 1; 0; 0; 0] 3) = 0 /\
  ow_res_leaked (ow_case_header [1; 1; 1; 0; 0; 0; 0; 0; 0; 1; 0; 0; 0] 3) = 0.
Proof. vm_compute. split; reflexivity. Qed.

(* ==== SECOND PART OF THE OWNERSHIP MODEL (coq/Model/MOwn2.v, proofs POwn2*.v; trace-tied to /repo by suite S-own2 of lib/c18_more.py) ====
   The same two statements per function, for EVERY allocation-failure schedule and every well-formed input shape: safe = never faults (no use after free, no
   double or invalid free, no NULL dereference); then_destroy_clean = function followed by the matching destructor returns exactly the caller's other cells.
   Functions: htp_parse_hostport / header_hostport / uri_hostport (IPv6 and plain branch; the code before /repo bc54fd2 double-frees in the model:
   C18_parse_uri_hostport_old_refuted), htp_parse_uri + htp_normalize_parsed_uri + the whole htp_tx_state_request_line, htp_process/parse_response_header_generic,
   htp_connp_res_buffer / consolidate / clear, the decompressor chain (create / destroy, htp_tx_state_response_headers fast and multi-token path,
   htp_connp_destroy_all with chains), htp_urlenp / htp_mpartp create and destroy, htp_tx_destroy of a complete transaction with its three request parsers,
   the two start-line parsers. 45 statements in POwn2Final.v; the representative ones are re-exported here. *)
Require Import Htp.Model.MOwn2 Htp.Proof.POwn2 Htp.Proof.POwn2Uri Htp.Proof.POwn2Res Htp.Proof.POwn2Dec Htp.Proof.POwn2Tx Htp.Proof.POwn2Line.
Theorem C18_safe_parse_hostport :
  forall (sh : ow_hpshape) (hp : option nat) (wantp : bool) (h0 p0 : ow_oid) (F : list nat) (s : ow_state),
       ow_own F s -> hp = None \/ in_frame hp F -> ow_nofault (ow_parse_hostport sh hp wantp h0 p0) s.
Proof. exact ow_safe_parse_hostport. Qed.
Print Assumptions C18_safe_parse_hostport.
Theorem C18_then_destroy_clean_parse_hostport :
  forall (sh : ow_hpshape) (hp : option nat) (wantp : bool) (F : list nat) (s : ow_state),
       ow_own F s -> hp = None \/ in_frame hp F -> ow_clean_to F (r <- ow_parse_hostport sh hp wantp None None;; ow_free (snd (fst r));;; ow_free (snd r)) s.
Proof. exact ow_then_destroy_clean_parse_hostport. Qed.
Print Assumptions C18_then_destroy_clean_parse_hostport.
Theorem C18_safe_parse_uri_hostport :
  forall (sh : ow_hpshape) (cp tx : ow_oid) (hp : option nat) (u : ow_uri) (F : list nat) (s : ow_state),
       uri_fresh_hostport u ->
       ow_own (fp_uri u ++ F) s -> hp = None \/ in_frame hp F -> in_frame cp F -> in_frame tx F -> ow_nofault (ow_parse_uri_hostport sh cp tx hp u) s.
Proof. exact ow_safe_parse_uri_hostport. Qed.
Print Assumptions C18_safe_parse_uri_hostport.
Theorem C18_then_destroy_clean_parse_uri_hostport :
  forall (sh : ow_hpshape) (cp tx : ow_oid) (hp : option nat) (u : ow_uri) (F : list nat) (s : ow_state),
       uri_fresh_hostport u ->
       ow_own (fp_uri u ++ F) s ->
       hp = None \/ in_frame hp F -> in_frame cp F -> in_frame tx F -> ow_clean_to F (r <- ow_parse_uri_hostport sh cp tx hp u;; ow_uri_free (Some (snd r))) s.
Proof. exact ow_then_destroy_clean_parse_uri_hostport. Qed.
Print Assumptions C18_then_destroy_clean_parse_uri_hostport.
Theorem C18_parse_uri_hostport_old_refuted :
  ow_res_fault (ow_case_uri_hostport_gen false [0; 0; 0; 0; 1; 0] 2) = 1.
Proof. exact ow_parse_uri_hostport_old_refuted. Qed.
Print Assumptions C18_parse_uri_hostport_old_refuted.
Theorem C18_safe_parse_uri :
  forall (sh : ow_pushape) (input : option nat) (u : option ow_uri) (F : list nat) (s : ow_state),
       uri_ok_for_parse u -> ow_own (fp_urio u ++ F) s -> input = None \/ in_frame input F -> ow_nofault (ow_parse_uri sh input u) s.
Proof. exact ow_safe_parse_uri. Qed.
Print Assumptions C18_safe_parse_uri.
Theorem C18_then_destroy_clean_parse_uri :
  forall (sh : ow_pushape) (input : option nat) (u : option ow_uri) (F : list nat) (s : ow_state),
       uri_ok_for_parse u -> ow_own (fp_urio u ++ F) s -> input = None \/ in_frame input F -> ow_clean_to F (r <- ow_parse_uri sh input u;; ow_uri_free (snd r)) s.
Proof. exact ow_then_destroy_clean_parse_uri. Qed.
Print Assumptions C18_then_destroy_clean_parse_uri.
Theorem C18_safe_tx_state_request_line :
  forall (connect : bool) (hsh : ow_hpshape) (psh : ow_pushape) (p : ow_connp) (c : ow_conn) (tx : ow_tx) (F : list nat) (s : ow_state),
       ow_world p c ->
       wf_tx tx ->
       otx_connp tx = ocp_self p ->
       uri_ok_for_parse (otx_uri_raw tx) ->
       (connect = true -> otx_uri_raw tx <> None) -> ow_own (fp_connp p ++ fp_tx tx ++ F) s -> ow_nofault (ow_tx_state_request_line connect hsh psh tx) s.
Proof. exact ow_safe_tx_state_request_line. Qed.
Print Assumptions C18_safe_tx_state_request_line.
Theorem C18_then_destroy_clean_tx_state_request_line :
  forall (connect : bool) (hsh : ow_hpshape) (psh : ow_pushape) (p : ow_connp) (c : ow_conn) (tx : ow_tx) (F : list nat) (s : ow_state),
       ow_world p c ->
       wf_tx tx ->
       otx_conn tx = ocn_self c ->
       otx_connp tx = ocp_self p ->
       ocn_txl c <> None ->
       uri_ok_for_parse (otx_uri_raw tx) ->
       (connect = true -> otx_uri_raw tx <> None) ->
       ow_own (fp_connp p ++ fp_tx tx ++ F) s -> ow_clean_to F (r <- ow_tx_state_request_line connect hsh psh tx;; ow_connp_destroy_all (Some (ow_put_tx p c (snd r)))) s.
Proof. exact ow_then_destroy_clean_tx_state_request_line. Qed.
Print Assumptions C18_then_destroy_clean_tx_state_request_line.
Theorem C18_safe_process_response_header :
  forall (on : bool) (sh : ow_hshape) (p : ow_connp) (c : ow_conn) (tx : ow_tx) (rep : nat) (F : list nat) (s : ow_state),
       ow_world p c -> wf_tx_res tx -> ow_own (fp_connp p ++ fp_tx tx ++ F) s -> ow_nofault (ow_process_response_header on sh (ocp_self p) c tx rep) s.
Proof. exact ow_safe_process_response_header. Qed.
Print Assumptions C18_safe_process_response_header.
Theorem C18_then_destroy_clean_process_response_header :
  forall (on : bool) (sh : ow_hshape) (p : ow_connp) (c : ow_conn) (tx : ow_tx) (rep : nat) (F : list nat) (s : ow_state),
       ow_world p c ->
       wf_tx_res tx ->
       otx_conn tx = ocn_self c ->
       otx_connp tx = ocp_self p ->
       ocn_txl c <> None ->
       ow_own (fp_connp p ++ fp_tx tx ++ F) s ->
       ow_clean_to F (r <- ow_process_response_header on sh (ocp_self p) c tx rep;; ow_connp_destroy_all (Some (ow_put_tx p (snd (fst (fst r))) (snd (fst r))))) s.
Proof. exact ow_then_destroy_clean_process_response_header. Qed.
Print Assumptions C18_then_destroy_clean_process_response_header.
Theorem C18_safe_res_buffer :
  forall (on : bool) (sh : ow_rbshape) (out_tx : ow_oid) (p : ow_connp) (F : list nat) (s : ow_state),
       wf_connp p -> ocp_conn p <> None -> ow_own (fp_connp p ++ F) s -> live_in out_tx s -> ow_nofault (ow_res_buffer on sh out_tx p) s.
Proof. exact ow_safe_res_buffer. Qed.
Print Assumptions C18_safe_res_buffer.
Theorem C18_then_destroy_clean_res_buffer :
  forall (on : bool) (sh : ow_rbshape) (out_tx : ow_oid) (p : ow_connp) (F : list nat) (s : ow_state),
       wf_connp p ->
       ocp_conn p <> None -> ow_own (fp_connp p ++ F) s -> live_in out_tx s -> ow_clean_to F (r <- ow_res_buffer on sh out_tx p;; ow_connp_destroy_all (Some (snd r))) s.
Proof. exact ow_then_destroy_clean_res_buffer. Qed.
Print Assumptions C18_then_destroy_clean_res_buffer.
Theorem C18_safe_decompressor_create :
  forall (on lz : bool) (fmt : nat) (p : ow_connp) (c : ow_conn) (F : list nat) (s : ow_state),
       ow_world p c -> ow_own (fp_connp p ++ F) s -> ow_nofault (ow_decompressor_create on lz fmt (ocp_self p) c) s.
Proof. exact ow_safe_decompressor_create. Qed.
Print Assumptions C18_safe_decompressor_create.
Theorem C18_then_destroy_clean_decompressor_create :
  forall (on lz : bool) (fmt : nat) (p : ow_connp) (c : ow_conn) (F : list nat) (s : ow_state),
       ow_world p c ->
       ow_own (fp_connp p ++ F) s ->
       ow_clean_to F
         (x <- ow_decompressor_create on lz fmt (ocp_self p) c;;
          match fst x with
          | Some d => ow_decompressor_destroy d
          | None => ow_ret tt
          end;;; ow_connp_destroy_all (Some (ocp_set_conn p (Some (snd x))))) s.
Proof. exact ow_then_destroy_clean_decompressor_create. Qed.
Print Assumptions C18_then_destroy_clean_decompressor_create.
Theorem C18_safe_tx_state_response_headers :
  forall (on lz : bool) (sh : ow_ceshape) (tx : ow_oid) (q : ow_connp2) (F : list nat) (s : ow_state),
       wf_connp2 q -> ocp_conn (ocq_p q) <> None -> ow_own (fp_connp2 q ++ F) s -> live_in tx s -> ow_nofault (ow_tx_state_response_headers on lz sh tx q) s.
Proof. exact ow_safe_tx_state_response_headers. Qed.
Print Assumptions C18_safe_tx_state_response_headers.
Theorem C18_then_destroy_clean_tx_state_response_headers :
  forall (on lz : bool) (sh : ow_ceshape) (tx : ow_oid) (q : ow_connp2) (F : list nat) (s : ow_state),
       wf_connp2 q ->
       ocp_conn (ocq_p q) <> None ->
       ow_own (fp_connp2 q ++ F) s -> live_in tx s -> ow_clean_to F (r <- ow_tx_state_response_headers on lz sh tx q;; ow_connp2_destroy_all (snd r)) s.
Proof. exact ow_then_destroy_clean_tx_state_response_headers. Qed.
Print Assumptions C18_then_destroy_clean_tx_state_response_headers.
Theorem C18_safe_mpartp_create :
  forall (cap : nat) (cfg b : ow_oid) (F : list nat) (s : ow_state), ow_own (olist [b] ++ F) s -> in_frame cfg F -> ow_nofault (ow_mpartp_create cap cfg b) s.
Proof. exact ow_safe_mpartp_create. Qed.
Print Assumptions C18_safe_mpartp_create.
Theorem C18_then_destroy_clean_mpartp_create :
  forall (cap : nat) (cfg b : ow_oid) (F : list nat) (s : ow_state),
       ow_own (olist [b] ++ F) s ->
       in_frame cfg F -> ow_clean_to F (m <- ow_mpartp_create cap cfg b;; match m with
                                                                          | Some _ => ow_ret tt
                                                                          | None => ow_free b
                                                                          end;;; ow_mpartp_destroy m) s.
Proof. exact ow_then_destroy_clean_mpartp_create. Qed.
Print Assumptions C18_then_destroy_clean_mpartp_create.
Theorem C18_tx_destroy_full_clean :
  forall (t : ow_tx_full) (F : list nat) (s : ow_state),
       wf_tx_full t -> ow_own (fp_tx_full t ++ F) s -> in_frame (otx_conn (otf_tx t)) F -> in_frame (otx_connp (otf_tx t)) F -> ow_clean_to F (ow_tx_destroy_full t) s.
Proof. exact ow_tx_destroy_full_clean. Qed.
Print Assumptions C18_tx_destroy_full_clean.
Theorem C18_parsers_then_tx_destroy_clean :
  forall (cap1 cap2 : nat) (cfg : ow_oid) (tx : ow_tx) (F : list nat) (s : ow_state),
       wf_tx tx ->
       ow_own (fp_tx tx ++ F) s ->
       in_frame cfg F ->
       in_frame (otx_conn tx) F ->
       in_frame (otx_connp tx) F ->
       ow_clean_to F
         (uq <- ow_urlenp_create cap1 (otx_self tx);;
          ub <- ow_urlenp_create cap1 (otx_self tx);;
          b <- ow_bstr_alloc;;
          mp <- ow_mpartp_create cap2 cfg b;;
          match mp with
          | Some _ => ow_ret tt
          | None => ow_free b
          end;;; ow_tx_destroy_full {| otf_tx := tx; otf_uq := uq; otf_ub := ub; otf_mp := mp |}) s.
Proof. exact ow_parsers_then_tx_destroy_clean. Qed.
Print Assumptions C18_parsers_then_tx_destroy_clean.
Theorem C18_safe_parse_request_line :
  forall (on : bool) (sh : ow_rlshape) (p : ow_connp) (c : ow_conn) (tx : ow_tx) (F : list nat) (s : ow_state),
       ow_world p c -> wf_tx tx -> req_line_ready tx -> ow_own (fp_connp p ++ fp_tx tx ++ F) s -> ow_nofault (ow_parse_request_line on sh (ocp_self p) c tx) s.
Proof. exact ow_safe_parse_request_line. Qed.
Print Assumptions C18_safe_parse_request_line.
Theorem C18_safe_parse_response_line :
  forall (parts : nat) (p : ow_connp) (c : ow_conn) (tx : ow_tx) (F : list nat) (s : ow_state),
       ow_world p c -> wf_tx tx -> res_line_ready tx -> ow_own (fp_connp p ++ fp_tx tx ++ F) s -> ow_nofault (ow_parse_response_line parts (ocp_self p) tx) s.
Proof. exact ow_safe_parse_response_line. Qed.
Print Assumptions C18_safe_parse_response_line.
