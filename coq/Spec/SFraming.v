(* C11 -- framing and host ambiguity indicators: declarative specification and the executable checkers
   that are (i) proved to accept every run of the model (Proof/PFraming.v) and (ii) extracted and run on
   the IMPLEMENTATION's transaction dump (suite c11_oracle).
   Nothing here follows the shape of the C: header fields are a list of (name, value) pairs in wire order,
   the decision table is a function of the VALUES of the Transfer-Encoding / Content-Length / Host fields.
   Imported from the model: character tables and constants regenerated from /repo (Base), the Content-Length
   number parser (specified in C17), the host:port splitter (specified in C13) and the model of the C
   library's inet_pton(AF_INET6) (MReqLine.rq_inet_pton6; external to libhtp). *)
Require Import Htp.Model.MConnTypes Htp.Model.MBstr Htp.Model.MUri Htp.Model.MReqLine.
Local Open Scope Z_scope.

(* ---------------------------------------------------------------- strings *)
Definition fr_eq_nocase (a b : bytes) : bool :=
  Nat.eqb (length a) (length b) && forallb (fun p => (c_tolower (fst p) =? c_tolower (snd p))%N) (combine a b).

(* pieces of s between occurrences of sep: never empty, "a,,b" -> ["a"; ""; "b"], "" -> [""] *)
Fixpoint fr_split (sep : N) (s : bytes) : list bytes :=
  match s with
  | [] => [[]]
  | x :: r =>
    if (x =? sep)%N then [] :: fr_split sep r
    else match fr_split sep r with
         | e :: es => (x :: e) :: es
         | [] => [[x]]
         end
  end.

Definition fr_trim (s : bytes) : bytes := strip_right htp_is_space (drop_while htp_is_space s).

(* some comma-separated element of v, trimmed of htp_is_space, equals tok case-insensitively *)
Definition fr_has_token (v tok : bytes) : Prop :=
  exists e, In e (fr_split 44 v) /\ fr_eq_nocase (fr_trim e) tok = true.
Definition fr_has_tokenb (v tok : bytes) : bool :=
  existsb (fun e => fr_eq_nocase (fr_trim e) tok) (fr_split 44 v).

(* what a token has to look like for the search to be meaningful: non-empty, lower case, no comma, no space *)
Definition fr_tok_ok (tok : bytes) : bool :=
  negb (Nat.eqb (length tok) 0) &&
  forallb (fun x => negb (htp_is_space x) && negb (x =? 44)%N && (c_tolower x =? x)%N) tok.

Definition fr_TE : bytes := [116;114;97;110;115;102;101;114;45;101;110;99;111;100;105;110;103]%N.  (* "transfer-encoding" *)
Definition fr_CL : bytes := [99;111;110;116;101;110;116;45;108;101;110;103;116;104]%N.              (* "content-length" *)
Definition fr_HOST : bytes := [104;111;115;116]%N.                                                    (* "host" *)
Definition fr_CHUNKED : bytes := [99;104;117;110;107;101;100]%N.                                      (* "chunked" *)

(* ---------------------------------------------------------------- header fields *)
Definition fr_field := (bytes * bytes)%type.          (* name, value -- as the header parser delivers them *)

(* values of the fields called `name` (case-insensitively), in wire order *)
Definition fr_values (name : bytes) (hs : list fr_field) : list bytes :=
  map snd (filter (fun f => fr_eq_nocase (fst f) name) hs).

(* the repetition cap (HTP_MAX_HEADERS_REPETITIONS): a field is an EXCESS field when at least two earlier
   fields carry its name; only the first `cap` excess fields of a request (all names together) are used *)
Definition fr_cap : nat := Z.to_nat c_HTP_MAX_HEADERS_REPETITIONS.
Definition fr_is_excess (earlier : list fr_field) (f : fr_field) : bool :=
  (2 <=? length (fr_values (fst f) earlier))%nat.
(* the fields that count: left to right; state = (fields kept so far, how many of them were excess fields) *)
Definition fr_keep_step (st : list fr_field * nat) (f : fr_field) : list fr_field * nat :=
  let ex := fr_is_excess (fst st) f in
  if ex && (fr_cap <=? snd st)%nat then st else (fst st ++ [f], if ex then S (snd st) else snd st).
Definition fr_keep_state (hs : list fr_field) : list fr_field * nat := fold_left fr_keep_step hs ([], O).
Definition fr_kept (hs : list fr_field) : list fr_field := fst (fr_keep_state hs).
(* number of excess fields of a request *)
Definition fr_excess_step (st : list fr_field * nat) (f : fr_field) : list fr_field * nat :=
  (fst st ++ [f], if fr_is_excess (fst st) f then S (snd st) else snd st).
Definition fr_nexcess (hs : list fr_field) : nat := snd (fold_left fr_excess_step hs ([], O)).
(* at most `cap` excess fields: then every field counts (fr_kept_within_cap) *)
Definition fr_within_cap (hs : list fr_field) : bool := (fr_nexcess hs <=? fr_cap)%nat.

(* merged view of one name: first value with the later ones joined by ", " (Content-Length: the first value
   alone), and whether the name occurs more than once *)
Definition fr_join (vs : list bytes) : bytes :=
  match vs with
  | [] => []
  | v :: r => v ++ concat (map (fun x => [44; 32]%N ++ x) r)
  end.
Definition fr_nonempty {A} (l : list A) : bool := match l with [] => false | _ :: _ => true end.
Definition fr_merged (name : bytes) (ks : list fr_field) : option (bytes * bool) :=
  match fr_values name ks with
  | [] => None
  | v :: more => Some (if fr_eq_nocase name fr_CL then v else fr_join (v :: more), fr_nonempty more)
  end.

(* ---------------------------------------------------------------- the framing decision table *)
Inductive fr_coding := FrNoBody | FrIdentity | FrChunked | FrInvalid.
Definition fr_coding_num (c : fr_coding) : Z :=
  match c with
  | FrNoBody => c_HTP_CODING_NO_BODY | FrIdentity => c_HTP_CODING_IDENTITY
  | FrChunked => c_HTP_CODING_CHUNKED | FrInvalid => c_HTP_CODING_INVALID
  end.
Record fr_verdict_t := mk_frv {
  frv_coding : fr_coding; frv_smuggling : bool; frv_invalid_te : bool; frv_invalid_cl : bool; frv_req_invalid : bool }.

Definition fr_cl_ok (v : bytes) : bool := 0 <=? parse_content_length v.     (* htp_parse_content_length, C17 *)

Definition fr_verdict (proto : Z) (hs : list fr_field) : fr_verdict_t :=
  let ks := fr_kept hs in
  let te := fr_values fr_TE ks in
  let cl := fr_values fr_CL ks in
  match te, cl with
  | _ :: _, _ =>
    if existsb (fun v => fr_has_tokenb v fr_CHUNKED) te
    then mk_frv FrChunked (fr_nonempty cl || (proto <? c_HTP_PROTOCOL_1_1)) (proto <? c_HTP_PROTOCOL_1_1) false false
    else mk_frv FrInvalid false true false true
  | [], c :: more =>
    if fr_cl_ok c
    then mk_frv FrIdentity (fr_nonempty more) false false false
    else mk_frv FrInvalid (fr_nonempty more) false true true
  | [], [] => mk_frv FrNoBody false false false false
  end.

(* the bits the verdict sets *)
Definition fr_bit (b : bool) (bit : N) : N := if b then bit else 0%N.
Definition fr_verdict_bits (v : fr_verdict_t) : N :=
  N.lor (N.lor (fr_bit (frv_smuggling v) c_HTP_REQUEST_SMUGGLING) (fr_bit (frv_invalid_te v) c_HTP_REQUEST_INVALID_T_E))
        (N.lor (fr_bit (frv_invalid_cl v) c_HTP_REQUEST_INVALID_C_L) (fr_bit (frv_req_invalid v) c_HTP_REQUEST_INVALID)).

Definition fr_has (f bit : N) : bool := negb (N.land f bit =? 0)%N.

(* THE ORACLE (framing): transaction flags and request_transfer_coding against the table. The four bits are
   written by nothing else on the request side, so they must be exactly the verdict's. *)
Definition fr_check (proto : Z) (hs : list fr_field) (flags : N) (coding : Z) : bool :=
  let v := fr_verdict proto hs in
  (coding =? fr_coding_num (frv_coding v)) &&
  Bool.eqb (fr_has flags c_HTP_REQUEST_SMUGGLING) (frv_smuggling v) &&
  Bool.eqb (fr_has flags c_HTP_REQUEST_INVALID_T_E) (frv_invalid_te v) &&
  Bool.eqb (fr_has flags c_HTP_REQUEST_INVALID_C_L) (frv_invalid_cl v) &&
  Bool.eqb (fr_has flags c_HTP_REQUEST_INVALID) (frv_req_invalid v).

(* the property text's reading of "smuggling attempt" (full; refuted in two ways, see Properties_C11.v):
   chunked T-E together with C-L, more than one C-L field, a folded C-L, chunked below HTTP/1.1 *)
Definition fr_smuggling_trigger (proto : Z) (hs : list fr_field) (cl_folded : bool) : bool :=
  let te := fr_values fr_TE hs in
  let cl := fr_values fr_CL hs in
  let chunked := existsb (fun v => fr_has_tokenb v fr_CHUNKED) te in
  (chunked && fr_nonempty cl) || (2 <=? length cl)%nat || (cl_folded && fr_nonempty cl) || (chunked && (proto <? c_HTP_PROTOCOL_1_1)).

(* ... and of "invalid": a Transfer-Encoding without the chunked token, or -- when no Transfer-Encoding frames the body --
   an unparseable (first) Content-Length *)
Definition fr_invalid_trigger (hs : list fr_field) : bool :=
  let te := fr_values fr_TE hs in
  let cl := fr_values fr_CL hs in
  match te, cl with
  | _ :: _, _ => negb (existsb (fun v => fr_has_tokenb v fr_CHUNKED) te)
  | [], c :: _ => negb (fr_cl_ok c)
  | [], [] => false
  end.
(* the domain in which the text's reading is proved: within the repetition cap, and outside the two refuted clauses
   (folded Content-Length; several Content-Length fields next to a Transfer-Encoding without the chunked token) *)
Definition fr_text_premise (hs : list fr_field) (cl_folded : bool) : bool :=
  let te := fr_values fr_TE hs in
  let cl := fr_values fr_CL hs in
  fr_within_cap hs && negb (cl_folded && fr_nonempty cl) &&
  negb ((2 <=? length cl)%nat && fr_nonempty te && negb (existsb (fun v => fr_has_tokenb v fr_CHUNKED) te)).
(* THE ORACLE (property text): every trigger is flagged; chunked coding frames the body when present *)
Definition fr_check_text (proto : Z) (hs : list fr_field) (cl_folded : bool) (flags : N) (coding : Z) : bool :=
  let chunked := existsb (fun v => fr_has_tokenb v fr_CHUNKED) (fr_values fr_TE hs) in
  implb (fr_smuggling_trigger proto hs cl_folded) (fr_has flags c_HTP_REQUEST_SMUGGLING) &&
  implb (fr_invalid_trigger hs) (fr_has flags c_HTP_REQUEST_INVALID) &&
  implb chunked (coding =? c_HTP_CODING_CHUNKED).

(* THE ORACLE (header table): every name that occurs in the fields or in the table is stored once, with the
   merged value and the REPEATED mark of the declarative view *)
Definition fr_lookup (name : bytes) (tbl : list (bytes * bytes * N)) : option (bytes * bytes * N) :=
  find (fun e => fr_eq_nocase (fst (fst e)) name) tbl.
Definition fr_opt_eqb (a b : option (bytes * bool)) : bool :=
  match a, b with
  | None, None => true
  | Some (x, p), Some (y, q) => rq_bytes_eqb x y && Bool.eqb p q
  | _, _ => false
  end.
Definition fr_check_table (hs : list fr_field) (tbl : list (bytes * bytes * N)) : bool :=
  let ks := fr_kept hs in
  forallb (fun name =>
             fr_opt_eqb (option_map (fun e => (snd (fst e), fr_has (snd e) c_HTP_FIELD_REPEATED)) (fr_lookup name tbl))
                        (fr_merged name ks))
          (map fst hs ++ map (fun e => fst (fst e)) tbl).

(* ---------------------------------------------------------------- hosts *)
Definition fr_label_char (c : N) : bool :=
  ((97 <=? c) && (c <=? 122))%N || ((65 <=? c) && (c <=? 90))%N || ((48 <=? c) && (c <=? 57))%N || (c =? 45)%N || (c =? 95)%N.
Definition fr_label_ok (l : bytes) : bool :=
  (1 <=? length l)%nat && (length l <=? 63)%nat && forallb fr_label_char l.
(* labels of a dotted name; one trailing dot is allowed: a final empty piece is not a label *)
Definition fr_drop_trailing_empty (ls : list bytes) : list bytes :=
  match last ls [0%N] with
  | [] => if (2 <=? length ls)%nat then removelast ls else ls
  | _ :: _ => ls
  end.
Definition fr_labels (h : bytes) : list bytes := fr_drop_trailing_empty (fr_split 46 h).
(* relaxed hostname syntax: 1..255 bytes; either dot-separated labels of 1..63 bytes from [A-Za-z0-9_-] with at
   most one trailing dot, or '[' + text accepted by inet_pton(AF_INET6) (shorter than INET6_ADDRSTRLEN) + one
   more byte *)
Definition fr_valid_hostnameb (h : bytes) : bool :=
  (1 <=? length h)%nat && (length h <=? 255)%nat &&
  match h with
  | c0 :: r =>
    if (c0 =? 91)%N
    then (2 <=? length h)%nat && (Z.of_nat (length h - 2) <? c_INET6_ADDRSTRLEN) && rq_inet_pton6 (firstn (length h - 2) r)
    else forallb fr_label_ok (fr_labels h)
  | [] => false
  end.

Record fr_host_verdict_t := mk_frh { frh_missing : bool; frh_ambiguous : bool; frh_hosth_invalid : bool }.
(* uhost/uport: host and port number of the (normalised) request target; hosth: the Host field's merged value *)
Definition fr_host_verdict (proto : Z) (uhost : option bytes) (uport : Z) (hosth : option bytes) : fr_host_verdict_t :=
  match hosth with
  | None => mk_frh (c_HTP_PROTOCOL_1_1 <=? proto) false false
  | Some v =>
    let '(hn, _, port, bad) := parse_hostport v in
    let invalid := bad || match hn with Some h => negb (fr_valid_hostnameb h) | None => false end in
    let amb :=
      match uhost, hn with
      | Some uh, Some h => negb (fr_eq_nocase h uh) || (negb (uport =? -1) && negb (port =? -1) && negb (uport =? port))
      | Some _, None => true
      | None, _ => false
      end in
    mk_frh false amb invalid
  end.
Definition fr_host_bits (v : fr_host_verdict_t) : N :=
  N.lor (fr_bit (frh_missing v) c_HTP_HOST_MISSING)
        (N.lor (fr_bit (frh_ambiguous v) c_HTP_HOST_AMBIGUOUS) (fr_bit (frh_hosth_invalid v) c_HTP_HOSTH_INVALID)).
Definition fr_host_value (hs : list fr_field) : option bytes := option_map fst (fr_merged fr_HOST (fr_kept hs)).

(* THE ORACLE (hosts): HOST_MISSING / HOST_AMBIGUOUS / HOSTH_INVALID exactly as the verdict says, and a request
   target whose host is syntactically invalid carries HOSTU_INVALID *)
Definition fr_check_host (proto : Z) (uhost : option bytes) (uport : Z) (hs : list fr_field) (flags : N) : bool :=
  let v := fr_host_verdict proto uhost uport (fr_host_value hs) in
  Bool.eqb (fr_has flags c_HTP_HOST_MISSING) (frh_missing v) &&
  Bool.eqb (fr_has flags c_HTP_HOST_AMBIGUOUS) (frh_ambiguous v) &&
  Bool.eqb (fr_has flags c_HTP_HOSTH_INVALID) (frh_hosth_invalid v) &&
  match uhost with
  | Some uh => if fr_valid_hostnameb uh then true else fr_has flags c_HTP_HOSTU_INVALID
  | None => true
  end.

(* the property text's reading of "syntactically invalid host": a bracketed host must also END with ']' (htp_validate_hostname
   never looks at the last byte: refuted, see Properties_C11.v) *)
Definition fr_valid_hostname_strict (h : bytes) : bool :=
  fr_valid_hostnameb h &&
  match h with
  | c0 :: _ => if (c0 =? 91)%N then (last h 0%N =? 93)%N else true
  | [] => true
  end.
Definition fr_host_text_premise (uhost : option bytes) : bool :=
  match uhost with
  | Some uh => Bool.eqb (fr_valid_hostname_strict uh) (fr_valid_hostnameb uh)
  | None => true
  end.
Definition fr_check_host_text (uhost : option bytes) (flags : N) : bool :=
  match uhost with
  | Some uh => if fr_valid_hostname_strict uh then true else fr_has flags c_HTP_HOSTU_INVALID
  | None => true
  end.
