(* C02 -- the wire grammar of well-formed messages and what a faithful parser has to report for them.
   Every predicate is an executable bool (the generators of lib/c02.py produce sentences of this grammar;
   wr_table / wr_expect_* are extracted and used as the oracle's right-hand sides).
   Explicit choices of the grammar:
     request line   m SP u SP p        m = non-empty token, u = non-empty without white space / NUL,
                                       p = "HTTP/1.0" | "HTTP/1.1"            (HTTP/0.9 form: m SP u)
     status line    p SP d1 d2 d3 SP r d1 in 1..9, r = reason (any bytes, first one not white space; may contain SP)
     header field   n ":" lws1 v lws2  n = non-empty token, v = field-content: no CR / LF, no LWS at either end
                                       (NUL and other controls are allowed in v: the theorems are stronger than RFC 7230 needs),
                                       lws1, lws2 = arbitrary SP / HT strings
     folding        the bytes lws1 ++ v ++ lws2 may be cut before any SP / HT into continuation lines
     repetition     the same name (in any casing) may occur several times in a block *)
Require Import Htp.Model.Base Htp.Model.MBstr Htp.Model.MConnTypes.

(* ---- byte strings ---- *)
Fixpoint wr_eqb (a b : bytes) : bool :=
  match a, b with
  | [], [] => true
  | x :: a', y :: b' => (x =? y)%N && wr_eqb a' b'
  | _, _ => false
  end.
Definition wr_nonempty (s : bytes) : bool := match s with [] => false | _ :: _ => true end.
Definition wr_token (s : bytes) : bool := wr_nonempty s && forallb htp_is_token s.
Definition wr_lws (s : bytes) : bool := forallb htp_is_lws s.

(* ---- request line ---- *)
Definition wr_uri_byte (b : N) : bool := negb (htp_is_space b) && negb (b =? 0)%N.
Definition wr_uri_ok (u : bytes) : bool := wr_nonempty u && forallb wr_uri_byte u.
Definition wr_http10 : bytes := [72;84;84;80;47;49;46;48]%N.          (* "HTTP/1.0" *)
Definition wr_http11 : bytes := [72;84;84;80;47;49;46;49]%N.          (* "HTTP/1.1" *)
Definition wr_protocol_ok (p : bytes) : bool := wr_eqb p wr_http10 || wr_eqb p wr_http11.
Definition wr_protocol_number (p : bytes) : Z := if wr_eqb p wr_http10 then c_HTP_PROTOCOL_1_0 else c_HTP_PROTOCOL_1_1.
Definition wr_wf_request_line (m u p : bytes) : bool := wr_token m && wr_uri_ok u && wr_protocol_ok p.
Definition wr_ser_request_line (m u p : bytes) : bytes := m ++ [SP] ++ u ++ [SP] ++ p.
Definition wr_wf_request_line_09 (m u : bytes) : bool := wr_token m && wr_uri_ok u.
Definition wr_ser_request_line_09 (m u : bytes) : bytes := m ++ [SP] ++ u.

(* ---- status line ---- *)
Definition wr_digit (b : N) : bool := (48 <=? b)%N && (b <=? 57)%N.
Definition wr_status_ok (s : bytes) : bool :=
  match s with [a; b; c] => (49 <=? a)%N && (a <=? 57)%N && wr_digit b && wr_digit c | _ => false end.
Definition wr_status_value (s : bytes) : Z :=
  match s with
  | [a; b; c] => (100 * (Z.of_N a - 48) + 10 * (Z.of_N b - 48) + (Z.of_N c - 48))%Z
  | _ => (-1)%Z
  end.
Definition wr_reason_ok (r : bytes) : bool := match r with [] => false | x :: _ => negb (c_isspace x) end.
Definition wr_wf_status_line (p s r : bytes) : bool := wr_protocol_ok p && wr_status_ok s && wr_reason_ok r.
Definition wr_ser_status_line (p s r : bytes) : bytes := p ++ [SP] ++ s ++ [SP] ++ r.

(* ---- one header field ---- *)
Definition wr_value_byte (b : N) : bool := negb (b =? CR)%N && negb (b =? LF)%N.
Definition wr_no_lws_head (v : bytes) : bool := match v with [] => true | x :: _ => negb (htp_is_lws x) end.
Definition wr_value_ok (v : bytes) : bool := forallb wr_value_byte v && wr_no_lws_head v && wr_no_lws_head (rev v).
Definition wr_wf_header (n v : bytes) : bool := wr_token n && wr_value_ok v.
Definition wr_ser_header (n lws1 v lws2 : bytes) : bytes := n ++ [58%N] ++ lws1 ++ v ++ lws2.
(* the line ends the code accepts after a line: none (already removed), LF, CR LF *)
Definition wr_eol (e : bytes) : bool := wr_eqb e [] || wr_eqb e [LF] || wr_eqb e [CR; LF].

(* ---- folding: the field n ":" body (body = lws1 ++ v ++ lws2) written as a first line and continuation lines ---- *)
(* pieces = p0 :: rest with concat pieces = body; every continuation piece starts with SP / HT *)
Definition wr_cont_ok (p : bytes) : bool := match p with [] => false | x :: _ => htp_is_lws x end.
Definition wr_fold_ok (pieces : list bytes) : bool :=
  match pieces with [] => false | _ :: rest => forallb wr_cont_ok rest end.
Definition wr_folded_lines (n : bytes) (pieces : list bytes) : list bytes :=
  match pieces with [] => [] | p0 :: rest => (n ++ [58%N] ++ p0) :: rest end.

(* ---- a header block: what the table has to be ---- *)
(* names are compared case-insensitively *)
Definition wr_same (a b : bytes) : bool := (cmp_mem_nocase a b =? 0)%Z.
Definition wr_str_content_length : bytes := [67;111;110;116;101;110;116;45;76;101;110;103;116;104]%N.   (* "Content-Length" *)
Definition wr_is_cl (n : bytes) : bool := wr_same n wr_str_content_length.
(* the distinct names, in order of first occurrence, in the spelling of the first occurrence *)
Fixpoint wr_first_names (hs : list (bytes * bytes)) : list bytes :=
  match hs with
  | [] => []
  | (n, _) :: r => n :: filter (fun x => negb (wr_same x n)) (wr_first_names r)
  end.
(* the values sent under a name, in wire order *)
Definition wr_values_of (n : bytes) (hs : list (bytes * bytes)) : list bytes :=
  map snd (filter (fun h => wr_same (fst h) n) hs).
(* v1 ", " v2 ", " ... *)
Definition wr_sep : bytes := [44; 32]%N.
Definition wr_join (vs : list bytes) : bytes :=
  match vs with [] => [] | v :: r => fold_left (fun a x => a ++ wr_sep ++ x) r v end.
Definition wr_entry (hs : list (bytes * bytes)) (n : bytes) : header :=
  let vs := wr_values_of n hs in
  mkhdr n (if wr_is_cl n then hd [] vs else wr_join vs) (if (1 <? length vs)%nat then c_HTP_FIELD_REPEATED else 0%N).
Definition wr_table (hs : list (bytes * bytes)) : list header := map (wr_entry hs) (wr_first_names hs).

(* the repetition cap: occurrences that have at least two earlier occurrences of the same name are counted by the code
   (tx->req_header_repetitions); beyond HTP_MAX_HEADERS_REPETITIONS of them further values are dropped *)
Fixpoint wr_excess_from (seen hs : list (bytes * bytes)) : nat :=
  match hs with
  | [] => 0
  | (n, v) :: r => (if (2 <=? length (wr_values_of n seen))%nat then 1 else 0) + wr_excess_from (seen ++ [(n, v)]) r
  end.
Definition wr_excess (hs : list (bytes * bytes)) : nat := wr_excess_from [] hs.
Definition wr_cap_ok (hs : list (bytes * bytes)) : bool := (Z.of_nat (wr_excess hs) <=? c_HTP_MAX_HEADERS_REPETITIONS)%Z.

(* the premises on a list of (name, value) pairs as one bool (the generators are filtered through it after extraction) *)
Definition wr_headers_ok (hs : list (bytes * bytes)) : bool := forallb (fun h => wr_wf_header (fst h) (snd h)) hs && wr_cap_ok hs.

(* a block on the wire: per field the name, the LWS choices and the value *)
Record wr_field := mk_wr_field { wf_name : bytes; wf_lws1 : bytes; wf_value : bytes; wf_lws2 : bytes }.
Definition wr_field_ok (f : wr_field) : bool := wr_wf_header (wf_name f) (wf_value f) && wr_lws (wf_lws1 f) && wr_lws (wf_lws2 f).
Definition wr_field_line (f : wr_field) : bytes := wr_ser_header (wf_name f) (wf_lws1 f) (wf_value f) (wf_lws2 f).
Definition wr_field_nv (f : wr_field) : bytes * bytes := (wf_name f, wf_value f).
Definition wr_block_ok (fs : list wr_field) : bool := forallb wr_field_ok fs && wr_cap_ok (map wr_field_nv fs).

(* case-insensitive lookup: the first field whose name is k in some casing *)
Definition wr_first_spelling (hs : list (bytes * bytes)) (k : bytes) : option bytes :=
  find (fun x => wr_same x k) (map fst hs).
Definition wr_no_nul (s : bytes) : bool := forallb (fun b => negb (b =? 0)%N) s.

(* ---- Host ---- *)
(* reg-name / IPv4 host text: non-empty, no ':' , no white space, not starting with '[' *)
Definition wr_host_byte (b : N) : bool := negb (b =? 58)%N && negb (c_isspace b).
Definition wr_host_ok (h : bytes) : bool :=
  forallb wr_host_byte h && match h with [] => false | x :: _ => negb (x =? 91)%N end.

(* ---- a whole request without body: request line, fields (one line each), empty line; CR LF line ends ---- *)
Definition wr_crlf : bytes := [CR; LF].
Definition wr_ser_request (m u p : bytes) (fs : list wr_field) : bytes :=
  wr_ser_request_line m u p ++ wr_crlf ++ concat (map (fun f => wr_field_line f ++ wr_crlf) fs) ++ wr_crlf.
