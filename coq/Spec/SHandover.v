(* The documented hand-over protocol of the stream API (docs/QUICK_START 2.2.1 - 2.2.8) as a driver:
   a caller holds two queues of pending chunks (request stream, response stream). It offers the head
   chunk of one direction; on DATA it drops the chunk; on DATA_OTHER it keeps the unconsumed suffix
   (the consumed count of the call) and turns to the other direction; on any other return code
   (ERROR, STOP, CLOSED, TUNNEL ...) it stops feeding that direction. When it is free to choose (after DATA) the
   direction comes from an arbitrary schedule (the arrival order on the wire).
   The driver is generic in the machine it drives (state type + one call function), so that the
   progress argument (Proof/PHandover.v) is independent of the parser; hs_call instantiates it with
   the model's API step MConnp.cp_step. *)
Require Import Htp.Model.Base.
Local Open Scope Z_scope.

Inductive hdir := HQ | HS.                       (* request stream / response stream *)
Definition hother (d : hdir) : hdir := match d with HQ => HS | HS => HQ end.
Definition hdir_eqb (a b : hdir) : bool := match a, b with HQ, HQ | HS, HS => true | _, _ => false end.

Inductive hout := HDone | HBlocked | HFuel.
(* one call as the caller sees it: direction, bytes offered, return code, consumed count *)
Record hcall := mkhcall { hc_dir : hdir; hc_len : nat; hc_rc : Z; hc_consumed : nat }.

Section Driver.
Variable St : Type.
Variable call : St -> hdir -> bytes -> St * Z * nat.     (* new state, return code, consumed count *)
Variable rc_DATA rc_DATA_OTHER : Z.

Record hst := mkhst { h_st : St; h_q : list bytes; h_s : list bytes; h_qlive : bool; h_slive : bool }.

Definition h_queue (s : hst) (d : hdir) : list bytes := match d with HQ => h_q s | HS => h_s s end.
Definition h_live (s : hst) (d : hdir) : bool := match d with HQ => h_qlive s | HS => h_slive s end.
Definition h_avail (s : hst) (d : hdir) : bool := h_live s d && match h_queue s d with [] => false | _ => true end.
Definition h_set_queue (s : hst) (d : hdir) (l : list bytes) : hst :=
  match d with
  | HQ => mkhst (h_st s) l (h_s s) (h_qlive s) (h_slive s)
  | HS => mkhst (h_st s) (h_q s) l (h_qlive s) (h_slive s)
  end.
Definition h_kill (s : hst) (d : hdir) : hst :=
  match d with
  | HQ => mkhst (h_st s) (h_q s) (h_s s) false (h_slive s)
  | HS => mkhst (h_st s) (h_q s) (h_s s) (h_qlive s) false
  end.
Definition h_set_st (s : hst) (x : St) : hst := mkhst x (h_q s) (h_s s) (h_qlive s) (h_slive s).

(* the direction to offer: the wanted one if it has a pending chunk and is still fed, else the other one *)
Definition h_next (want : hdir) (s : hst) : option hdir :=
  if h_avail s want then Some want else if h_avail s (hother want) then Some (hother want) else None.

(* what one step of the caller does *)
Inductive hstep :=
  | HS_done                                          (* nothing left to offer *)
  | HS_blocked (s : hst) (k : hcall)                 (* the request side waits for response bytes the caller does not have *)
  | HS_go (s : hst) (k : option hcall) (forced : option hdir).   (* forced = Some d: the next call must be for d (hand-over) *)

Definition h_step (want : hdir) (s : hst) : hstep :=
  match h_next want s with
  | None => HS_done
  | Some d =>
    match h_queue s d with
    | [] => HS_done                                  (* not reachable: h_avail *)
    | ch :: rest =>
      match ch with
      | [] => HS_go (h_set_queue s d rest) None None         (* an empty chunk is not offered *)
      | _ =>
        let '(x, rc, n) := call (h_st s) d ch in
        let k := mkhcall d (length ch) rc n in
        let s := h_set_st s x in
        if rc =? rc_DATA then HS_go (h_set_queue s d rest) (Some k) None
        else if rc =? rc_DATA_OTHER then
          let s := h_set_queue s d (skipn n ch :: rest) in
          match n, d with
          | O, HQ => if h_avail s HS then HS_go s (Some k) (Some HS) else HS_blocked s k
          | _, _ => HS_go s (Some k) (Some (hother d))
          end
        else HS_go (h_kill s d) (Some k) None
      end
    end
  end.

(* sched i: the direction the caller would like to feed at step i when it is free to choose *)
Fixpoint h_run (fuel : nat) (sched : nat -> hdir) (i : nat) (forced : option hdir) (s : hst) : hout * hst * list hcall :=
  match fuel with
  | O => (HFuel, s, [])
  | S f =>
    match h_step (match forced with Some d => d | None => sched i end) s with
    | HS_done => (HDone, s, [])
    | HS_blocked s k => (HBlocked, s, [k])
    | HS_go s k forced =>
      let '(o, s', l) := h_run f sched (S i) forced s in
      (o, s', match k with Some k => k :: l | None => l end)
    end
  end.

(* pending work: bytes and chunks of the directions still fed *)
Definition h_weight (l : list bytes) : nat := fold_right (fun ch a => (S (length ch) + a)%nat) O l.
Definition h_measure (s : hst) : nat :=
  ((if h_qlive s then h_weight (h_q s) else O) + (if h_slive s then h_weight (h_s s) else O))%nat.
Definition h_fuel (s : hst) : nat := (4 * h_measure s + 4)%nat.

End Driver.

Arguments mkhst {St}. Arguments h_st {St}. Arguments h_q {St}. Arguments h_s {St}. Arguments h_qlive {St}. Arguments h_slive {St}.
Arguments h_queue {St}. Arguments h_live {St}. Arguments h_avail {St}. Arguments h_measure {St}. Arguments h_fuel {St}.

(* ---- the instance: the model's API step ---- *)
Require Import Htp.Model.MConnTypes Htp.Model.MTxCommon Htp.Model.MReq Htp.Model.MRes Htp.Model.MConnp.

Definition hs_op (d : hdir) (ch : bytes) : cp_op := match d with HQ => OpReqData ch | HS => OpResData ch end.
Definition hs_call (cb : cb_oracle) (g : cfg) (c : connp) (d : hdir) (ch : bytes) : connp * Z * nat :=
  let '(c', r) := cp_step cb g c (hs_op d ch) in (c', r_rc r, r_consumed r).
Definition hs_init (c : connp) (q s : list bytes) : hst connp := mkhst c q s true true.
Definition hs_run (cb : cb_oracle) (g : cfg) (sched : nat -> hdir) (c : connp) (q s : list bytes) : hout * hst connp * list hcall :=
  h_run connp (hs_call cb g) c_HTP_STREAM_DATA c_HTP_STREAM_DATA_OTHER (h_fuel (hs_init c q s)) sched 0 None (hs_init c q s).
