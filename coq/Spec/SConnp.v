(* Executable checkers (oracles) for the connection-level properties, over what a caller of the
   stream API can observe: per call the return code, consumed count, stream states, number of
   transactions, buffer sizes and the callback events. The same checkers are (i) proved to accept
   every run of the model (Proof/), and (ii) extracted and run on the IMPLEMENTATION's output. *)
Require Import Htp.Model.Base.
Local Open Scope Z_scope.

(* one observed callback: hook id, transaction id, payload (None = NULL data / not a data hook) *)
Record oev := mkoev { oe_hook : nat; oe_tx : nat; oe_len : option nat }.
(* one observed API call. kind: 0 request data, 1 response data, 2 request gap, 3 response gap,
   4 req_close, 5 close, 6 other (open, tx_freed, destroy) *)
Record ocall := mkocall { oc_kind : nat; oc_len : nat; oc_rc : Z; oc_consumed : nat;
                          oc_in_status : Z; oc_out_status : Z; oc_ntx : nat;
                          oc_ibuf : nat; oc_ihdr : nat; oc_obuf : nat; oc_ohdr : nat;
                          oc_events : list oev }.

(* ---------------------------------------------------------------- C05: lifecycle monitor *)
(* per transaction: request side 0 none, 1 start, 2 line, 3 headers, 4 body, 5 trailer, 6 complete;
   response side likewise; fin = TRANSACTION_COMPLETE seen *)
Record lc := mklc { lc_rq : nat; lc_rs : nat; lc_fin : bool }.
Definition lc0 := mklc 0 0 false.
Definition lc_step (s : lc) (h : nat) : option lc :=
  if lc_fin s then None else                      (* nothing after TRANSACTION_COMPLETE *)
  let adv_q n := if Nat.ltb (lc_rq s) n then Some (mklc n (lc_rs s) false) else None in
  let adv_s n := if Nat.ltb (lc_rs s) n then Some (mklc (lc_rq s) n false) else None in
  let rng lo hi v := (Nat.leb lo v && Nat.leb v hi)%bool in
  let setq n := Some (mklc (Nat.max n (lc_rq s)) (lc_rs s) false) in
  let sets n := Some (mklc (lc_rq s) (Nat.max n (lc_rs s)) false) in
  match h with
  | 0 => adv_q 1                                                  (* REQUEST_START *)
  | 2 | 1 => if Nat.leb (lc_rq s) 2 then setq 2 else None         (* REQUEST_URI_NORMALIZE, REQUEST_LINE *)
  | 3 => if Nat.leb 2 (lc_rq s) then Some s else None              (* REQUEST_HEADER_DATA: raw bytes handed to a data receiver; its last flush may even follow REQUEST_COMPLETE; not part of the documented order *)
  | 4 => if rng 2 3 (lc_rq s) then setq 3 else None               (* REQUEST_HEADERS *)
  | 5 | 19 => if rng 2 5 (lc_rq s) then setq 4 else None          (* REQUEST_BODY_DATA (cfg-level and tx-level) *)
  | 7 => if Nat.leb 3 (lc_rq s) then Some s else None              (* REQUEST_TRAILER_DATA (raw) *)
  | 8 => if rng 2 5 (lc_rq s) then setq 5 else None               (* REQUEST_TRAILER *)
  | 9 => adv_q 6                                                  (* REQUEST_COMPLETE: at most once *)
  | 10 => adv_s 1                                                 (* RESPONSE_START *)
  | 11 => if Nat.leb (lc_rs s) 3 then Some (mklc (lc_rq s) 2 false) else None  (* RESPONSE_LINE; again after an interim 100 response (which may have no header bytes at all) *)
  | 12 => if Nat.leb 2 (lc_rs s) then Some s else None             (* RESPONSE_HEADER_DATA (raw) *)
  | 13 => if rng 2 3 (lc_rs s) then sets 3 else None              (* RESPONSE_HEADERS *)
  | 14 | 20 => if rng 1 5 (lc_rs s) then sets 4 else None         (* RESPONSE_BODY_DATA; a line-less (HTTP/0.9 style) response goes straight from start to body *)
  | 15 => if Nat.leb 3 (lc_rs s) then Some s else None             (* RESPONSE_TRAILER_DATA (raw) *)
  | 16 => if rng 2 5 (lc_rs s) then sets 5 else None              (* RESPONSE_TRAILER *)
  | 17 => adv_s 6                                                 (* RESPONSE_COMPLETE: at most once *)
  | 18 => if (Nat.eqb (lc_rq s) 6 && Nat.eqb (lc_rs s) 6)%bool then Some (mklc 6 6 true) else None   (* TRANSACTION_COMPLETE *)
  | _ => None
  end%nat.
Fixpoint lc_accepts (s : lc) (tr : list nat) : bool :=
  match tr with [] => true | h :: r => match lc_step s h with Some s' => lc_accepts s' r | None => false end end.
(* where a trace is rejected: the offending hook and the monitor state it met *)
Fixpoint lc_first_reject (s : lc) (tr : list nat) : option (nat * lc) :=
  match tr with [] => None | h :: r => match lc_step s h with Some s' => lc_first_reject s' r | None => Some (h, s) end end.
(* hooks delivered for transaction i, in order *)
Definition trace_of (evs : list oev) (i : nat) : list nat :=
  map oe_hook (filter (fun e => Nat.eqb (oe_tx e) i) evs).
Definition all_events (calls : list ocall) : list oev := concat (map oc_events calls).
Definition C05_rejects (calls : list ocall) : list (nat * (nat * lc)) :=
  let evs := all_events calls in
  flat_map (fun i => match lc_first_reject lc0 (trace_of evs i) with Some x => [(i, x)] | None => [] end)
           (seq 0 (S (fold_right Nat.max 0%nat (map oe_tx evs)))).
Definition chk_C05 (calls : list ocall) : bool :=
  let evs := all_events calls in
  forallb (fun i => lc_accepts lc0 (trace_of evs i)) (seq 0 (S (fold_right Nat.max 0%nat (map oe_tx evs)))).

(* ---------------------------------------------------------------- C09: stream API contract (per call) *)
Definition is_data_call (k : nat) : bool := Nat.ltb k 4.
Definition rc_documented (rc : Z) : bool :=
  (rc =? c_HTP_STREAM_CLOSED) || (rc =? c_HTP_STREAM_ERROR) || (rc =? c_HTP_STREAM_TUNNEL) ||
  (rc =? c_HTP_STREAM_DATA_OTHER) || (rc =? c_HTP_STREAM_STOP) || (rc =? c_HTP_STREAM_DATA).
Definition chk_C09_call (o : ocall) : bool :=
  if is_data_call (oc_kind o) then
    rc_documented (oc_rc o) &&
    (if oc_rc o =? c_HTP_STREAM_DATA then Nat.eqb (oc_consumed o) (oc_len o) else true) &&
    (if oc_rc o =? c_HTP_STREAM_DATA_OTHER then Nat.ltb (oc_consumed o) (oc_len o) else true)
  else true.
(* stickiness within one direction: once a request-data call returned ERROR or STOP, later request-data
   calls return the same and run no callback -- as long as no call of the OTHER kind (response data,
   close) came in between (those may legitimately or not rewrite the state: see the refuted clauses) *)
Fixpoint chk_sticky_req (st : option Z) (calls : list ocall) : bool :=
  match calls with
  | [] => true
  | o :: r =>
    if (Nat.eqb (oc_kind o) 0 || Nat.eqb (oc_kind o) 2)%bool then
      match st with
      | Some s => (oc_rc o =? s) && (match oc_events o with [] => true | _ => false end) && chk_sticky_req st r
      | None => chk_sticky_req (if (oc_rc o =? c_HTP_STREAM_ERROR) || (oc_rc o =? c_HTP_STREAM_STOP) then Some (oc_rc o) else None) r
      end
    else if Nat.eqb (oc_kind o) 6 then chk_sticky_req st r
    else chk_sticky_req None r
  end.
Fixpoint chk_sticky_res (st : option Z) (calls : list ocall) : bool :=
  match calls with
  | [] => true
  | o :: r =>
    if (Nat.eqb (oc_kind o) 1 || Nat.eqb (oc_kind o) 3)%bool then
      match st with
      | Some s => (oc_rc o =? s) && (match oc_events o with [] => true | _ => false end) && chk_sticky_res st r
      | None => chk_sticky_res (if (oc_rc o =? c_HTP_STREAM_ERROR) || (oc_rc o =? c_HTP_STREAM_STOP) then Some (oc_rc o) else None) r
      end
    else if Nat.eqb (oc_kind o) 6 then chk_sticky_res st r
    else chk_sticky_res None r
  end.
(* the property text read literally: NO later call of the direction may return anything else, whatever happened
   on the other direction in between (refuted on the unchanged code: see Properties_C09.v) *)
Fixpoint chk_sticky_req_strict (st : option Z) (calls : list ocall) : bool :=
  match calls with
  | [] => true
  | o :: r =>
    if (Nat.eqb (oc_kind o) 0 || Nat.eqb (oc_kind o) 2)%bool then
      match st with
      | Some s => (oc_rc o =? s) && (match oc_events o with [] => true | _ => false end) && chk_sticky_req_strict st r
      | None => chk_sticky_req_strict (if (oc_rc o =? c_HTP_STREAM_ERROR) || (oc_rc o =? c_HTP_STREAM_STOP) then Some (oc_rc o) else None) r
      end
    else chk_sticky_req_strict st r
  end.
Definition chk_C09 (calls : list ocall) : bool :=
  forallb chk_C09_call calls && chk_sticky_req None calls && chk_sticky_res None calls.

(* ---------------------------------------------------------------- C10: limits *)
Definition chk_C10_call (hard maxtx : nat) (o : ocall) : bool :=
  (Nat.leb (oc_ibuf o) hard) && (Nat.leb (oc_obuf o) hard) &&
  (if Nat.ltb 0 maxtx then Nat.leb (oc_ntx o) (S maxtx) else true).
Definition chk_C10 (hard maxtx : nat) (calls : list ocall) : bool := forallb (chk_C10_call hard maxtx) calls.

(* ---------------------------------------------------------------- C16: tunnel is absorbing for data calls *)
(* once a data call has been answered while BOTH directions are in TUNNEL, every later data call returns
   TUNNEL, runs no callback and creates no transaction (histories end at close) *)
Fixpoint chk_C16_tunnel (in_tunnel : option nat) (calls : list ocall) : bool :=
  match calls with
  | [] => true
  | o :: r =>
    let both := (oc_in_status o =? c_HTP_STREAM_TUNNEL) && (oc_out_status o =? c_HTP_STREAM_TUNNEL) in
    match in_tunnel with
    | Some n =>
      if is_data_call (oc_kind o)
      then (oc_rc o =? c_HTP_STREAM_TUNNEL) && (match oc_events o with [] => true | _ => false end) && Nat.eqb (oc_ntx o) n && chk_C16_tunnel in_tunnel r
      else if Nat.eqb (oc_kind o) 6 then chk_C16_tunnel in_tunnel r
      else true          (* close ends the history the property quantifies over *)
    | None => chk_C16_tunnel (if both then Some (oc_ntx o) else None) r
    end
  end.
Definition chk_C16 (calls : list ocall) : bool := chk_C16_tunnel None calls.
