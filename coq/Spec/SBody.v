(* C06: the declarative side of "body bytes are delivered exactly once, in order, with correct length
   accounting": the chunked ENCODER (ground truth of the decode/encode theorem), executable premises
   (each a bool with a non-vacuity Example in Props/Properties_C06.v), and the observation functions over
   the event log that the theorems and the oracle speak about. No proofs here. *)
Require Import Htp.Model.MConnTypes Htp.Model.MBstr Htp.Model.MReqLine Htp.Model.MResLine.
Local Open Scope Z_scope.

(* ---- the encoder (DESIGN Appendix A, C06) ---- *)
Definition bd_CRLF : bytes := [CR; LF].
Definition bd_hexd (d : N) : N := if (d <? 10)%N then (48 + d)%N else (87 + d)%N.
Fixpoint bd_hex (fuel : nat) (n : N) : bytes :=
  match fuel with
  | O => []
  | S f => if (n <? 16)%N then [bd_hexd n] else bd_hex f (n / 16)%N ++ [bd_hexd (n mod 16)%N]
  end.
Definition bd_hexlen (c : bytes) : bytes := bd_hex 16 (N.of_nat (length c)).
(* one wire chunk: size [;ext] CRLF data CRLF *)
Definition bd_enc_chunk (c ext : bytes) : bytes := bd_hexlen c ++ ext ++ bd_CRLF ++ c ++ bd_CRLF.
Definition bd_enc_chunks (cs : list (bytes * bytes)) : bytes := concat (map (fun ce => bd_enc_chunk (fst ce) (snd ce)) cs).
Definition bd_last_line : bytes := 48%N :: bd_CRLF.
Definition bd_enc_body (cs : list (bytes * bytes)) (trailer : bytes) : bytes :=
  bd_enc_chunks cs ++ bd_last_line ++ trailer ++ bd_CRLF.
(* extension: empty, or ";..." without CR / LF *)
Definition bd_ext_ok (e : bytes) : bool :=
  match e with [] => true | x :: _ => (x =? 59)%N && forallb (fun b => negb ((b =? CR)%N || (b =? LF)%N)) e end.

(* ---- the general wire format the decoder theorem is proved for ----
   a chunk = (size line INCLUDING its LF, data, the line that ends the data INCLUDING its LF) *)
Definition bd_no_lf (s : bytes) : bool := forallb (fun b => negb (b =? LF)%N) s.
(* `line` is one line: everything before its last byte is LF-free and the last byte is LF *)
Definition bd_is_line (l : bytes) : bool :=
  match rev l with x :: r => (x =? LF)%N && bd_no_lf r | [] => false end.
Record bd_chunk := mk_bd_chunk { bc_line : bytes; bc_data : bytes; bc_end : bytes }.
Definition bd_chunk_wire (k : bd_chunk) : bytes := bc_line k ++ bc_data k ++ bc_end k.
(* request side: the size line is chomped before htp_parse_chunked_length *)
Definition bd_rq_line_value (l : bytes) : Z := fst (parse_chunked_length (htp_chomp l)).
(* response side: no chomp *)
Definition bd_rs_line_value (l : bytes) : Z := fst (parse_chunked_length l).
Definition bd_chunk_ok (value : bytes -> Z) (k : bd_chunk) : bool :=
  bd_is_line (bc_line k) && bd_is_line (bc_end k) &&
  negb (length (bc_data k) =? 0)%nat && (value (bc_line k) =? Z.of_nat (length (bc_data k))).
Definition bd_last_ok (value : bytes -> Z) (l : bytes) : bool := bd_is_line l && (value l =? 0).
Definition bd_chunks_wire (ks : list bd_chunk) : bytes := concat (map bd_chunk_wire ks).
Definition bd_chunks_data (ks : list bd_chunk) : bytes := concat (map bc_data ks).
(* every line fits the hard limit (line assembly buffers it) *)
Definition bd_lines_fit (hard : nat) (ks : list bd_chunk) (last : bytes) : bool :=
  forallb (fun k => (length (bc_line k) <=? hard)%nat) ks && (length last <=? hard)%nat.

(* HISTORICAL premise (finding K1, repaired): before the repair data_probe_chunk_length was evaluated on the part of the size
   line that lies in the CURRENT TCP chunk only; the theorems needed this predicate, now they do not (kept for the regression
   Example C06_chunked_res_ext_fixed and the c06prem suite); it must not fire whatever the cut: every suffix of the line (without its LF) is shorter than 8 bytes
   or has a hex digit as its first non-control byte *)
Fixpoint bd_suffixes_ok (s : bytes) : bool :=
  match s with
  | [] => true
  | _ :: r => ((length s <? 8)%nat || rs_probe_scan s) && bd_suffixes_ok r
  end.
Definition bd_res_line_ok (l : bytes) : bool := bd_suffixes_ok (removelast l).
(* a size line is not "empty" for htp_parse_chunked_length (the -1004 path) *)
Definition bd_res_chunk_ok (k : bd_chunk) : bool := bd_chunk_ok bd_rs_line_value k && bd_res_line_ok (bc_line k).

(* ---- observations over the event log (c_events is newest first) ---- *)
Definition bd_evs (h : nat) (evs : list event) : list event := filter (fun e => Nat.eqb (ev_hook e) h) evs.
Definition bd_ev_len (e : event) : Z := match ev_data e with Some d => Z.of_nat (length d) | None => 0 end.
Definition bd_sum (h : nat) (evs : list event) : Z := fold_right (fun e a => bd_ev_len e + a) 0 (bd_evs h evs).
Definition bd_ev_bytes (e : event) : bytes := match ev_data e with Some d => d | None => [] end.
(* the payloads of hook h in the order of delivery *)
Definition bd_delivered (h : nat) (evs : list event) : bytes := concat (map bd_ev_bytes (rev (bd_evs h evs))).
(* in the chronological log `chron`, every completion event (hook hc) is preceded by a NULL-data event of hook hd *)
Fixpoint bd_marker_ok (hd hc : nat) (chron : list event) (seen : bool) : bool :=
  match chron with
  | [] => true
  | e :: r =>
    if Nat.eqb (ev_hook e) hc then seen && bd_marker_ok hd hc r seen
    else bd_marker_ok hd hc r (seen || (Nat.eqb (ev_hook e) hd && match ev_data e with None => true | Some _ => false end))
  end.

(* ---- helpers for the Examples of Props/Properties_C06.v ---- *)
Require Coq.Strings.String Coq.Strings.Ascii.
Fixpoint bd_str (s : String.string) : bytes :=
  match s with
  | String.EmptyString => []
  | String.String a r => N.of_nat (Ascii.nat_of_ascii a) :: bd_str r
  end.
(* executable form of the invariant the theorems start from (Proof/PBodyReq.v: bd_rq_inv) *)
Definition bd_rq_invb (i : nat) (c : connp) : bool :=
  match c_in_tx c with Some j => Nat.eqb j i | None => false end &&
  match tx_slot c i with Some t => Nat.eqb (t_hook_request_body t) 0 | None => false end &&
  match k_receiver_hook (c_in c) with None => true | Some _ => false end &&
  match k_header (c_in c) with None => true | Some _ => false end &&
  negb (c_in_status c =? c_HTP_STREAM_TUNNEL) &&
  match k_data (c_in c) with
  | Some d => Nat.eqb (k_len (c_in c)) (length d) && Nat.leb (k_read (c_in c)) (length d)
  | None => false
  end.
Definition bd_rq_cleanb (c : connp) : bool :=
  Nat.eqb (k_consume (c_in c)) (k_read (c_in c)) && match k_buf (c_in c) with None => true | Some _ => false end.
(* text lines, each terminated by CRLF *)
Definition bd_lines (l : list String.string) : bytes := concat (map (fun s => bd_str s ++ bd_CRLF) l).
(* payload bytes of hook h over a list of per-call event lists (oldest first), in order of delivery *)
Definition bd_log_delivered (h : nat) (log : list (list event)) : bytes :=
  concat (map bd_ev_bytes (filter (fun e => Nat.eqb (ev_hook e) h) (concat log))).
(* executable forms of the response-side starting invariant (Proof/PBodyRes.v: bd_rs_inv, bd_rs_clean) *)
Definition bd_rs_invb (o : nat) (c : connp) : bool :=
  match c_out_tx c with Some j => Nat.eqb j o | None => false end &&
  match tx_slot c o with Some t => Nat.eqb (t_hook_response_body t) 0 && (t_res_cep t =? c_HTP_COMPRESSION_NONE) | None => false end &&
  match k_receiver_hook (c_out c) with None => true | Some _ => false end &&
  match k_header (c_out c) with None => true | Some _ => false end &&
  negb (c_out_status c =? c_HTP_STREAM_TUNNEL) && negb (c_out_status c =? c_HTP_STREAM_CLOSED) &&
  match k_data (c_out c) with
  | Some d => Nat.eqb (k_len (c_out c)) (length d) && Nat.leb (k_read (c_out c)) (length d)
  | None => false
  end.
Definition bd_rs_cleanb (c : connp) : bool :=
  Nat.eqb (k_consume (c_out c)) (k_read (c_out c)) && match k_buf (c_out c) with None | Some [] => true | Some _ => false end.
