(* C12 -- declarative side: segments, RFC 3986 5.2.4 as the RFC writes it (with the deviation the project's tests
   pin), and the escape tokeniser against which the decoder's indicators are stated. No proofs here. *)
Require Import Htp.Model.Base Htp.Model.MPath.
Local Open Scope N_scope.

(* the segments of a path: split at every sep *)
Fixpoint dot_split_on (sep : byte) (s : bytes) : list bytes :=
  match s with
  | [] => [[]]
  | x :: r => if x =? sep then [] :: dot_split_on sep r
              else match dot_split_on sep r with g :: gs => (x :: g) :: gs | [] => [[x]] end
  end.

Fixpoint dot_drop_while (p : byte -> bool) (s : bytes) : bytes :=
  match s with [] => [] | x :: r => if p x then dot_drop_while p r else s end.

Section RFC.
  Let DOT : byte := pth_DOT.
  Let SL : byte := pth_SL.
  (* RFC 3986 5.2.4 as written (input buffer, output buffer), with the deviation the project's tests pin
     ("one/." -> "one", "one/.." -> "", "one/../" -> ""): when rule B or C would leave exactly "/" in the input
     buffer -- the dot segment was the final one, with or without a trailing slash -- that "/" is dropped. *)
  Definition dot_pop_seg (out : bytes) : bytes :=        (* remove last segment and its preceding "/" *)
    rev (match dot_drop_while (fun b => negb (b =? SL)) (rev out) with [] => [] | _ :: r => r end).
  Fixpoint dot_first_seg (s : bytes) : bytes * bytes :=   (* up to, not including, the next "/" *)
    match s with
    | [] => ([], [])
    | x :: r => if x =? SL then ([], s) else let '(a, b) := dot_first_seg r in (x :: a, b)
    end.
  Inductive rds : bytes -> bytes -> bytes -> Prop :=
  | R_end out : rds [] out out
  | R_A1 r out res : rds r out res -> rds (DOT :: DOT :: SL :: r) out res
  | R_A2 r out res : rds r out res -> rds (DOT :: SL :: r) out res
  | R_B1 r out res : r <> [] -> rds (SL :: r) out res -> rds (SL :: DOT :: SL :: r) out res
  | R_B1e out : rds [SL; DOT; SL] out out                              (* pinned: RFC gives out ++ "/" *)
  | R_B2 out : rds [SL; DOT] out out                                   (* pinned: RFC gives out ++ "/" *)
  | R_C1 r out res : r <> [] -> rds (SL :: r) (dot_pop_seg out) res -> rds (SL :: DOT :: DOT :: SL :: r) out res
  | R_C1e out : rds [SL; DOT; DOT; SL] out (dot_pop_seg out)           (* pinned *)
  | R_C2 out : rds [SL; DOT; DOT] out (dot_pop_seg out)                (* pinned *)
  | R_D1 out : rds [DOT] out out
  | R_D2 out : rds [DOT; DOT] out out
  | R_E x r a b out res :
      (* none of A-D applies *) dot_first_seg r = (a, b) ->
      ~ (exists r', x :: r = DOT :: DOT :: SL :: r') -> ~ (exists r', x :: r = DOT :: SL :: r') ->
      ~ (exists r', x :: r = SL :: DOT :: SL :: r') -> x :: r <> [SL; DOT] ->
      ~ (exists r', x :: r = SL :: DOT :: DOT :: SL :: r') -> x :: r <> [SL; DOT; DOT] ->
      x :: r <> [DOT] -> x :: r <> [DOT; DOT] ->
      rds b (out ++ x :: a) res -> rds (x :: r) out res.
End RFC.

(* ------------------------------------------------------------------ the escape tokeniser of the path decoder *)

(* A deterministic greedy tokeniser: what construct stands at the head of the unread input, how many bytes of the
   input it spans under the configuration, and whether decoding stops at it. *)
Inductive pth_tok :=
| PT_lit (b : N)              (* a raw byte other than '%' and NUL *)
| PT_rawnul                   (* a raw NUL byte *)
| PT_pct (b : N)              (* "%HH", two hex digits: the byte it denotes *)
| PT_pctu (hi lo : N)         (* "%uHHHH", four hex digits, when %u decoding is enabled: the code point's two bytes *)
| PT_bad                      (* '%' not followed by a valid escape; only the '%' is consumed *)
| PT_badx (b : N)             (* PROCESS_INVALID: '%' + two bytes that are not both hex, converted anyway *)
| PT_badu (hi lo : N).        (* PROCESS_INVALID: "%u" + four bytes that are not all hex, converted anyway *)

Definition pth_issep (c : dcfg) (b : N) : bool := (b =? pth_SL) || (d_backslash c && (b =? pth_BSL)).
(* the byte a %u escape denotes: the low byte when the high byte is zero, the best-fit map otherwise *)
Definition pth_u_value (c : dcfg) (hi lo : N) : N :=
  if hi =? 0 then lo else pth_bestfit_u t_bestfit_1252 hi lo (d_replacement c).
Definition pth_fl (b : bool) (f : N) : N := if b then f else 0.

Definition pth_is_u (c : dcfg) (a1 : N) : bool := d_u_decode c && ((a1 =? pth_u) || (a1 =? pth_U)).

Definition pth_lex1 (c : dcfg) (rest : bytes) : pth_tok * nat * bool :=
  match rest with
  | [] => (PT_bad, 1%nat, true)
  | x :: r =>
    if x =? pth_PCT then
      match r with
      | a1 :: a2 :: r2 =>
        if pth_is_u c a1 then
          match r2 with
          | a3 :: a4 :: a5 :: _ =>
            if c_isxdigit a2 && c_isxdigit a3 && c_isxdigit a4 && c_isxdigit a5
            then (PT_pctu (pth_x2c a2 a3) (pth_x2c a4 a5), 6%nat, false)
            else match pth_handling c with
                 | Pth_process => (PT_badu (pth_x2c a2 a3) (pth_x2c a4 a5), 6%nat, false)
                 | _ => (PT_bad, 1%nat, false)
                 end
          | _ => (PT_bad, 1%nat, false)
          end
        else if c_isxdigit a1 && c_isxdigit a2 then
          let b := pth_x2c a1 a2 in
          if (b =? 0) && d_nul_enc_term c then (PT_pct b, 3%nat, true)
          else if pth_issep c b && negb (d_sep_decode c)
               then (PT_pct b, 1%nat, false)      (* left encoded: '%' is copied, the two digits are read again as literals *)
               else (PT_pct b, 3%nat, false)
        else match pth_handling c with
             | Pth_process => (PT_badx (pth_x2c a1 a2), 3%nat, false)
             | _ => (PT_bad, 1%nat, false)
             end
      | _ => (PT_bad, 1%nat, false)
      end
    else if x =? 0 then (PT_rawnul, 1%nat, d_nul_raw_term c)
    else (PT_lit x, 1%nat, false)
  end.

Fixpoint pth_lex_loop (c : dcfg) (skip : nat) (rest : bytes) : list pth_tok :=
  match rest with
  | [] => []
  | _ :: r =>
    match skip with
    | S k => pth_lex_loop c k r
    | O => let '(t, span, stop) := pth_lex1 c rest in
           if stop then [t] else t :: pth_lex_loop c (span - 1) r
    end
  end.
Definition pth_lex (c : dcfg) (s : bytes) : list pth_tok := pth_lex_loop c 0 s.

(* which indicators a token raises *)
Definition pth_u_flags (c : dcfg) (hi lo : N) : N :=
  N.lor (if hi =? 0 then c_HTP_PATH_OVERLONG_U else pth_fl (hi =? 255) c_HTP_PATH_HALF_FULL_RANGE)
        (pth_fl (pth_issep c (pth_u_value c hi lo)) c_HTP_PATH_ENCODED_SEPARATOR).
Definition pth_tok_flags (c : dcfg) (t : pth_tok) : N :=
  match t with
  | PT_lit _ => 0
  | PT_rawnul => c_HTP_PATH_RAW_NUL
  | PT_pct b => N.lor (pth_fl (b =? 0) c_HTP_PATH_ENCODED_NUL) (pth_fl (pth_issep c b) c_HTP_PATH_ENCODED_SEPARATOR)
  | PT_pctu hi lo => N.lor (pth_u_flags c hi lo) (pth_fl (pth_u_value c hi lo =? 0) c_HTP_PATH_ENCODED_NUL)
  | PT_bad => c_HTP_PATH_INVALID_ENCODING
  | PT_badx _ => c_HTP_PATH_INVALID_ENCODING
  | PT_badu hi lo => N.lor c_HTP_PATH_INVALID_ENCODING (pth_u_flags c hi lo)
  end.
Definition pth_lor_all (l : list N) : N := fold_right N.lor 0 l.

(* the byte a token contributes to the output (before backslash conversion / lower-casing / separator compression) *)
Definition pth_interp (c : dcfg) (t : pth_tok) : option N :=
  match t with
  | PT_lit b => Some b
  | PT_rawnul => if d_nul_raw_term c then None else Some 0
  | PT_pct b => if (b =? 0) && d_nul_enc_term c then None
                else if pth_issep c b && negb (d_sep_decode c) then Some pth_PCT else Some b
  | PT_pctu hi lo => Some (pth_u_value c hi lo)
  | PT_bad => match pth_handling c with Pth_remove => None | _ => Some pth_PCT end
  | PT_badx b => Some b
  | PT_badu hi lo => Some (pth_u_value c hi lo)
  end.
Definition pth_post_byte (c : dcfg) (ch : N) : N :=
  let ch := if (ch =? pth_BSL) && d_backslash c then pth_SL else ch in
  if d_lowercase c then c_tolower ch else ch.
Fixpoint pth_squeeze (prev : bool) (l : bytes) : bytes :=
  match l with
  | [] => []
  | x :: r => if x =? pth_SL then (if prev then pth_squeeze true r else x :: pth_squeeze true r)
              else x :: pth_squeeze false r
  end.
Definition pth_compress (c : dcfg) (prev : bool) (l : bytes) : bytes := if d_sep_compress c then pth_squeeze prev l else l.
Definition pth_opt_list (o : option N) : bytes := match o with Some b => [b] | None => [] end.
Definition pth_decode_spec (c : dcfg) (s : bytes) : bytes :=
  pth_compress c false (map (pth_post_byte c) (flat_map (fun t => pth_opt_list (pth_interp c t)) (pth_lex c s))).

(* which tokens are the "construct" of each indicator *)
Definition pth_raises_invalid (t : pth_tok) : bool :=
  match t with PT_bad | PT_badx _ | PT_badu _ _ => true | _ => false end.
Definition pth_raises_rawnul (t : pth_tok) : bool := match t with PT_rawnul => true | _ => false end.
Definition pth_raises_encnul (c : dcfg) (t : pth_tok) : bool :=
  match t with PT_pct b => b =? 0 | PT_pctu hi lo => pth_u_value c hi lo =? 0 | _ => false end.
Definition pth_raises_encsep (c : dcfg) (t : pth_tok) : bool :=
  match t with
  | PT_pct b => pth_issep c b
  | PT_pctu hi lo | PT_badu hi lo => pth_issep c (pth_u_value c hi lo)
  | _ => false
  end.
Definition pth_raises_overlong_u (t : pth_tok) : bool :=
  match t with PT_pctu hi _ | PT_badu hi _ => hi =? 0 | _ => false end.
Definition pth_raises_halffull (t : pth_tok) : bool :=
  match t with PT_pctu hi _ | PT_badu hi _ => hi =? 255 | _ => false end.

(* ------------------------------------------------------------------ UTF-8 as the two path functions read it *)

(* Well-formed sequences (overlong forms accepted, surrogates and code points above U+10FFFF not):
     00..7F | C0..DF c | E0..EF c c (ED: second byte 80..9F) | F0..F4 c c c (F4: second byte 80..8F),   c = 80..BF.
   A greedy tokeniser: at the head of the unread input stands an ASCII byte, a complete sequence, a byte that cannot
   start a sequence / a sequence broken by a wrong byte (UT_bad), or a sequence cut off by the end of the input.
   The two C functions differ in one point only: after a broken sequence htp_utf8_validate_path skips the offending
   byte (eat = true), htp_utf8_decode_path_inplace reads it again as the start of the next character (eat = false). *)
Inductive utf8_tok := UT_ascii (b : N) | UT_seq (n : nat) (cp : N) | UT_bad | UT_trunc.

Definition utf8_in (lo hi b : N) : bool := (lo <=? b) && (b <=? hi).

(* lead byte: sequence length, payload bits of the lead byte, upper end of the range allowed for the second byte *)
Definition utf8_lead (b : N) : option (nat * N * N) :=
  if b <? 192 then None
  else if b <? 224 then Some (2%nat, N.land b 31, 191)
  else if b <? 240 then Some (3%nat, N.land b 15, if b =? 237 then 159 else 191)
  else if b <? 245 then Some (4%nat, N.land b 7, if b =? 244 then 143 else 191)
  else None.

Inductive utf8_res := UR_ok (cp : N) | UR_broken (seen : nat) | UR_end.
(* k continuation bytes still expected, the next one in 80..hi; seen = bytes of the sequence read so far *)
Fixpoint utf8_conts (k : nat) (hi cp : N) (rest : bytes) (seen : nat) : utf8_res :=
  match k with
  | O => UR_ok cp
  | S k' =>
    match rest with
    | [] => UR_end
    | b :: r => if utf8_in 128 hi b then utf8_conts k' 191 (N.lor (N.land b 63) (N.shiftl cp 6)) r (S seen)
                else UR_broken seen
    end
  end.

Definition utf8_lex1 (eat : bool) (rest : bytes) : utf8_tok * nat :=
  match rest with
  | [] => (UT_trunc, 1%nat)
  | b0 :: r =>
    if b0 <? 128 then (UT_ascii b0, 1%nat)
    else match utf8_lead b0 with
         | None => (UT_bad, 1%nat)
         | Some (n, cp0, hi) =>
           match utf8_conts (n - 1) hi cp0 r 1 with
           | UR_ok cp => (UT_seq n cp, n)
           | UR_broken seen => (UT_bad, if eat then S seen else seen)
           | UR_end => (UT_trunc, length rest)
           end
         end
  end.

Fixpoint utf8_lex_loop (eat : bool) (skip : nat) (rest : bytes) : list utf8_tok :=
  match rest with
  | [] => []
  | _ :: r =>
    match skip with
    | S k => utf8_lex_loop eat k r
    | O => let '(t, span) := utf8_lex1 eat rest in
           match t with UT_trunc => [t] | _ => t :: utf8_lex_loop eat (span - 1) r end
    end
  end.
Definition utf8_lex (eat : bool) (s : bytes) : list utf8_tok := utf8_lex_loop eat 0 s.

Definition utf8_is_seq (t : utf8_tok) : bool := match t with UT_seq _ _ => true | _ => false end.
Definition utf8_is_bad (t : utf8_tok) : bool := match t with UT_bad => true | _ => false end.
(* a sequence longer than its code point needs *)
Definition utf8_is_overlong (t : utf8_tok) : bool := match t with UT_seq n cp => utf8_overlong n cp | _ => false end.
(* half-width / full-width forms: the decoder tests U+FF00..U+FFEF, the validator U+FF00..U+FFFF *)
Definition utf8_is_halffull (dec : bool) (t : utf8_tok) : bool :=
  match t with
  | UT_seq _ cp => if dec then (65280 <=? cp) && (cp <=? 65519) else (65279 <? cp) && (cp <? 65536)
  | _ => false
  end.

Definition utf8_tok_flags (dec : bool) (t : utf8_tok) : N :=
  match t with
  | UT_seq _ _ => N.lor (pth_fl (utf8_is_overlong t) c_HTP_PATH_UTF8_OVERLONG)
                        (pth_fl (utf8_is_halffull dec t) c_HTP_PATH_HALF_FULL_RANGE)
  | UT_bad => c_HTP_PATH_UTF8_INVALID
  | _ => 0
  end.
(* UTF8_VALID: at least one multi-byte sequence and nothing invalid *)
Definition utf8_spec_flags (dec : bool) (toks : list utf8_tok) : N :=
  N.lor (pth_lor_all (map (utf8_tok_flags dec) toks))
        (pth_fl (existsb utf8_is_seq toks && negb (existsb utf8_is_bad toks)) c_HTP_PATH_UTF8_VALID).

(* what the decoder writes for a token: the byte, the best-fit byte of the code point, the replacement byte *)
Definition utf8_interp (c : dcfg) (t : utf8_tok) : bytes :=
  match t with
  | UT_ascii b => [b]
  | UT_seq _ cp => [utf8_bestfit_codepoint c cp]
  | UT_bad => [d_replacement c]
  | UT_trunc => []
  end.
Definition utf8_spec_decode (c : dcfg) (s : bytes) : bytes * N :=
  let toks := utf8_lex false s in (flat_map (utf8_interp c) toks, utf8_spec_flags true toks).
Definition utf8_spec_validate (s : bytes) : N := utf8_spec_flags false (utf8_lex true s).

(* ------------------------------------------------------------------ the documented pipeline, stage by stage *)
(* well-formed arguments: the path consists of bytes, the replacement byte is a byte *)
Definition pth_wf (c : dcfg) (s : bytes) : bool := all_byte s && (d_replacement c <? 256).
Definition pth_decoder_flags_spec (c : dcfg) (s : bytes) : N := pth_lor_all (map (pth_tok_flags c) (pth_lex c s)).
(* UTF-8: best-fit conversion when configured, validation only otherwise *)
Definition pth_spec_stage2 (c : dcfg) (p1 : bytes) : bytes * N :=
  if d_bestfit c then utf8_spec_decode c p1 else (p1, utf8_spec_validate p1).
