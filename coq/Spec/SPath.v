(* C12 -- declarative side: segments, RFC 3986 5.2.4 as the RFC writes it (with the deviation the project's tests
   pin), and the escape tokeniser against which the decoder's indicators are stated. No proofs here. *)
Require Import Htp.Model.Base Htp.Model.MPath.
Local Open Scope N_scope.

(* the segments of a path: split at every sep *)
Fixpoint dot_split_on (sep : byte) (s : bytes) : list bytes :=
  match s with
  | [] => [[]]
  | x :: r => if x =? sep then [] :: dot_split_on sep r
              else match dot_split_on sep r with g :: gs => (x :: g) :: gs | [] => [[x]] end
  end.

Fixpoint dot_drop_while (p : byte -> bool) (s : bytes) : bytes :=
  match s with [] => [] | x :: r => if p x then dot_drop_while p r else s end.

Section RFC.
  Let DOT : byte := pth_DOT.
  Let SL : byte := pth_SL.
  (* RFC 3986 5.2.4 as written (input buffer, output buffer), with the deviation the project's tests pin
     ("one/." -> "one", "one/.." -> "", "one/../" -> ""): when rule B or C would leave exactly "/" in the input
     buffer -- the dot segment was the final one, with or without a trailing slash -- that "/" is dropped. *)
  Definition dot_pop_seg (out : bytes) : bytes :=        (* remove last segment and its preceding "/" *)
    rev (match dot_drop_while (fun b => negb (b =? SL)) (rev out) with [] => [] | _ :: r => r end).
  Fixpoint dot_first_seg (s : bytes) : bytes * bytes :=   (* up to, not including, the next "/" *)
    match s with
    | [] => ([], [])
    | x :: r => if x =? SL then ([], s) else let '(a, b) := dot_first_seg r in (x :: a, b)
    end.
  Inductive rds : bytes -> bytes -> bytes -> Prop :=
  | R_end out : rds [] out out
  | R_A1 r out res : rds r out res -> rds (DOT :: DOT :: SL :: r) out res
  | R_A2 r out res : rds r out res -> rds (DOT :: SL :: r) out res
  | R_B1 r out res : r <> [] -> rds (SL :: r) out res -> rds (SL :: DOT :: SL :: r) out res
  | R_B1e out : rds [SL; DOT; SL] out out                              (* pinned: RFC gives out ++ "/" *)
  | R_B2 out : rds [SL; DOT] out out                                   (* pinned: RFC gives out ++ "/" *)
  | R_C1 r out res : r <> [] -> rds (SL :: r) (dot_pop_seg out) res -> rds (SL :: DOT :: DOT :: SL :: r) out res
  | R_C1e out : rds [SL; DOT; DOT; SL] out (dot_pop_seg out)           (* pinned *)
  | R_C2 out : rds [SL; DOT; DOT] out (dot_pop_seg out)                (* pinned *)
  | R_D1 out : rds [DOT] out out
  | R_D2 out : rds [DOT; DOT] out out
  | R_E x r a b out res :
      (* none of A-D applies *) dot_first_seg r = (a, b) ->
      ~ (exists r', x :: r = DOT :: DOT :: SL :: r') -> ~ (exists r', x :: r = DOT :: SL :: r') ->
      ~ (exists r', x :: r = SL :: DOT :: SL :: r') -> x :: r <> [SL; DOT] ->
      ~ (exists r', x :: r = SL :: DOT :: DOT :: SL :: r') -> x :: r <> [SL; DOT; DOT] ->
      x :: r <> [DOT] -> x :: r <> [DOT; DOT] ->
      rds b (out ++ x :: a) res -> rds (x :: r) out res.
End RFC.
