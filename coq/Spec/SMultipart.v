(* C14: reference semantics and executable premises.
   - mp_astep: a byte-at-a-time reference machine for the boundary matcher (what htp_mpartp_parse does
     with the whole body in one call, expressed without chunk buffers). Its part layer IS the model's
     (mp_hd / mp_hb / mp_finalize_data): only the matcher is abstracted.
   - premises of the chunking theorem, all boolean and extracted (the generators filter with them):
       mp_bnd_okb         the boundary contains no CR / LF
       mp_body_okb        along the reference run the body never (K3) hands data to an UNKNOWN part after the
                          last boundary in data mode (every call is stored twice there) and never (K4) completes
                          a boundary match while a part header line is unterminated
       mp_no_cr_hazardb   (K1) no chunk starts with CR while the previous one left a CR set aside in STATE_DATA
       mp_tail_okb        (K2) at the end no set-aside data is pending without a current part
   - the encoder mp_encode and the well-formedness predicate mp_wfb of the exactness theorem. *)
Require Import Htp.Model.Base Htp.Model.MBstr Htp.Model.MMultipart.

(* ------------------------------------------------------------------ reference machine *)
Inductive mp_am :=
  | AmData (crp : bool)                   (* crp: the previous byte was a CR that is still undecided *)
  | AmBnd (held : bytes) (k : nat)        (* held: the line ending under test; boundary[2..k) matched so far *)
  | AmIsLast2 | AmIsLast1 | AmEatLws | AmEatLwsCr.

Record mp_ast := mk_mp_ast { ma_b : bytes; ma_pl : mp_pl; ma_m : mp_am; ma_ok : bool }.

(* K3: the state in which htp_mpart_part_handle_data stores every call twice *)
Definition mp_dupb (pl : mp_pl) : bool :=
  mp_has c_mp_SEEN_LAST_BOUNDARY (mpl_flags pl) &&
  match mpl_cur pl, mpl_mode pl with
  | Some p, MpData => match mpp_type p with MpUnknown => true | _ => false end
  | _, _ => false
  end.

(* handle_data of the reference run; second component: the call is outside K3 *)
Definition mp_ahd (pl : mp_pl) (ok : bool) (d : bytes) (is_line : bool) : mp_pl * bool :=
  (mp_hd pl d is_line, ok && (mp_isnil d || negb (mp_dupb pl))).

Definition mp_matched (b : bytes) (k : nat) : bytes := firstn (k - 2) (skipn 2 b).

(* what a failed boundary test releases: the line ending, as the end of a line (only line mode looks at that), then
   the matched bytes *)
Definition mp_arelease (b : bytes) (pl : mp_pl) (ok : bool) (held : bytes) (k : nat) : mp_pl * bool :=
  let '(pl1, ok1) := mp_ahd pl ok held true in mp_ahd pl1 ok1 (mp_matched b k) false.

Definition mp_astep_data (b : bytes) (pl : mp_pl) (ok : bool) (crp : bool) (c : N) : mp_ast :=
  if (c =? CR)%N then
    let '(pl1, ok1) := if crp then mp_ahd pl ok [CR] false else (pl, ok) in
    mk_mp_ast b pl1 (AmData true) ok1
  else if (c =? LF)%N then
    mk_mp_ast b (mp_pl_flag pl (if crp then c_mp_CRLF_LINE else c_mp_LF_LINE)) (AmBnd (if crp then [CR; LF] else [LF]) 2) ok
  else
    let '(pl1, ok1) := mp_ahd pl ok (if crp then [CR; c] else [c]) false in
    mk_mp_ast b pl1 (AmData false) ok1.

Definition mp_pl_bump (pl : mp_pl) : mp_pl :=
  mk_mp_pl (mpl_flags pl) (S (mpl_bcount pl)) (mpl_done pl) (mpl_cur pl) (mpl_mode pl) (mpl_hpieces pl) (mpl_pending pl) (mpl_dpieces pl).

(* a completed boundary match *)
Definition mp_amatch (pl : mp_pl) : mp_pl :=
  let pl3 := mp_pl_bump pl in
  mp_hb (if mp_has c_mp_SEEN_LAST_BOUNDARY (mpl_flags pl3) then mp_pl_flag pl3 c_mp_PART_AFTER_LAST_BOUNDARY else pl3).

(* K4: a part header line still open when the boundary completes *)
Definition mp_openlineb (pl : mp_pl) : bool :=
  match mpl_mode pl, mpl_hpieces pl with MpLine, Some _ => true | _, _ => false end.

Definition mp_astep (a : mp_ast) (c : N) : mp_ast :=
  let b := ma_b a in let pl := ma_pl a in let ok := ma_ok a in
  match ma_m a with
  | AmData crp => mp_astep_data b pl ok crp c
  | AmBnd held k =>
    if (c =? nth k (b ++ [0%N]) 0%N)%N then
      if (S k =? length b)%nat then mk_mp_ast b (mp_amatch pl) AmIsLast2 (ok && negb (mp_openlineb pl))
      else mk_mp_ast b pl (AmBnd held (S k)) ok
    else
      let '(pl1, ok1) := mp_arelease b pl ok held k in
      mp_astep_data b pl1 ok1 false c
  | AmIsLast2 =>
    if (c =? mp_DASH)%N then mk_mp_ast b pl AmIsLast1 ok
    else (* not consumed: the byte goes to EAT_LWS *)
      if (c =? CR)%N then mk_mp_ast b pl AmEatLwsCr ok
      else if (c =? LF)%N then mk_mp_ast b (mp_pl_flag pl c_mp_LF_LINE) (AmData false) ok
      else mk_mp_ast b (mp_pl_flag pl (if htp_is_lws c then c_mp_BBOUNDARY_LWS_AFTER else c_mp_BBOUNDARY_NLWS_AFTER)) AmEatLws ok
  | AmIsLast1 =>
    if (c =? mp_DASH)%N then mk_mp_ast b (mp_pl_flag pl c_mp_SEEN_LAST_BOUNDARY) AmEatLws ok
    else
      let pl1 := mp_pl_flag pl c_mp_BBOUNDARY_NLWS_AFTER in
      if (c =? CR)%N then mk_mp_ast b pl1 AmEatLwsCr ok
      else if (c =? LF)%N then mk_mp_ast b (mp_pl_flag pl1 c_mp_LF_LINE) (AmData false) ok
      else mk_mp_ast b (mp_pl_flag pl1 (if htp_is_lws c then c_mp_BBOUNDARY_LWS_AFTER else c_mp_BBOUNDARY_NLWS_AFTER)) AmEatLws ok
  | AmEatLws =>
    if (c =? CR)%N then mk_mp_ast b pl AmEatLwsCr ok
    else if (c =? LF)%N then mk_mp_ast b (mp_pl_flag pl c_mp_LF_LINE) (AmData false) ok
    else mk_mp_ast b (mp_pl_flag pl (if htp_is_lws c then c_mp_BBOUNDARY_LWS_AFTER else c_mp_BBOUNDARY_NLWS_AFTER)) AmEatLws ok
  | AmEatLwsCr =>
    if (c =? LF)%N then mk_mp_ast b (mp_pl_flag pl c_mp_CRLF_LINE) (AmData false) ok
    else
      let pl1 := mp_pl_flag pl c_mp_BBOUNDARY_NLWS_AFTER in
      if (c =? CR)%N then mk_mp_ast b pl1 AmEatLwsCr ok
      else mk_mp_ast b (mp_pl_flag pl1 (if htp_is_lws c then c_mp_BBOUNDARY_LWS_AFTER else c_mp_BBOUNDARY_NLWS_AFTER)) AmEatLws ok
  end.

Definition mp_ainit (boundary : bytes) (flags : N) : mp_ast :=
  mk_mp_ast ([CR; LF; mp_DASH; mp_DASH] ++ boundary) (mk_mp_pl flags 0 [] None MpLine None None None) (AmBnd [] 2) true.

(* end of input: htp_mpartp_finalize on the reference state *)
Definition mp_afinal (a : mp_ast) : mp_pl * bool :=
  let pl := ma_pl a in
  match mpl_cur pl with
  | None => (pl, ma_ok a)
  | Some _ =>
    let '(pl1, ok1) :=
      match ma_m a with
      | AmData true => mp_ahd pl (ma_ok a) [CR] false
      | AmBnd held k => mp_arelease (ma_b a) pl (ma_ok a) held k
      | _ => (pl, ma_ok a)
      end in
    match mpl_cur pl1 with
    | None => (pl1, ok1)
    | Some p =>
      let pl2 := mp_finalize_data pl1 p in
      (match mpl_cur pl2 with
       | Some q => (match mpp_type q with MpEpilogue => pl2 | _ => mp_pl_flag pl2 c_mp_INCOMPLETE end)
       | None => pl2
       end, ok1)
    end
  end.

Definition mp_aparts (pl : mp_pl) : list mp_part := mpl_done pl ++ match mpl_cur pl with Some p => [p] | None => [] end.
Definition mp_aobs (pl : mp_pl) : list mp_pobs * N * bool := (map mp_part_obs (mp_aparts pl), mpl_flags pl, false).

(* the reference result for a whole body *)
Definition mp_aref (boundary : bytes) (flags : N) (body : bytes) : mp_pl * bool :=
  mp_afinal (fold_left mp_astep body (mp_ainit boundary flags)).

(* ------------------------------------------------------------------ premises *)
Definition mp_bnd_okb (boundary : bytes) : bool :=
  forallb (fun c => negb (c =? CR)%N && negb (c =? LF)%N) boundary.

Definition mp_body_okb (boundary : bytes) (flags : N) (body : bytes) : bool := snd (mp_aref boundary flags body).

(* K1: the set-aside CR is dropped when the next call starts with CR (CR CR.., CR LF + delimiter) *)
Definition mp_cr_hazard_at (s : mp_state) (chunk : bytes) : bool :=
  mps_cr s && (match mps_state s with MpsData => true | _ => false end) &&
  match chunk with c :: _ => (c =? CR)%N | [] => false end.
Fixpoint mp_no_cr_hazard_from (s : mp_state) (chunks : list bytes) : bool :=
  match chunks with
  | [] => true
  | c :: r => negb (mp_cr_hazard_at s c) && mp_no_cr_hazard_from (mp_parse s c) r
  end.
Definition mp_no_cr_hazardb (boundary : bytes) (flags : N) (chunks : list bytes) : bool :=
  mp_no_cr_hazard_from (mp_init_flags boundary flags) chunks.

(* the data part of a boundary candidate: what precedes its LF / CRLF *)
Definition mp_strip_eol (pre : bytes) : bytes :=
  match rev pre with
  | c :: r => if (c =? LF)%N then (match r with c2 :: r2 => if (c2 =? CR)%N then rev r2 else rev r | [] => [] end) else pre
  | [] => []
  end.

(* K2: htp_mpartp_finalize forgets set-aside data when there is no current part *)
Definition mp_tail_okb (s : mp_state) : bool :=
  match mpl_cur (mps_pl s), mps_bpieces s with
  | None, p1 :: _ => mp_isnil (mp_strip_eol (firstn (mps_cand s) p1))
  | _, _ => true
  end.

(* all premises of the chunking theorem for one chunking of one body *)
Definition mp_premb (boundary : bytes) (flags : N) (chunks : list bytes) : bool :=
  mp_bnd_okb boundary && mp_body_okb boundary flags (concat chunks) && mp_no_cr_hazardb boundary flags chunks &&
  mp_tail_okb (fold_left mp_parse chunks (mp_init_flags boundary flags)) &&
  mp_tail_okb (mp_parse (mp_init_flags boundary flags) (concat chunks)).

(* ------------------------------------------------------------------ encoder and well-formedness *)
Inductive mp_epart := MpeText (name value : bytes) | MpeFile (name filename : bytes) (ctype : option bytes) (data : bytes).

Fixpoint mp_quote (s : bytes) : bytes :=
  match s with
  | [] => []
  | c :: r => if (c =? mp_QUOTE)%N || (c =? mp_BSL)%N then mp_BSL :: c :: mp_quote r else c :: mp_quote r
  end.

Definition mp_s_cdhead : bytes :=   (* Content-Disposition: form-data; name=QUOTE *)
  [67;111;110;116;101;110;116;45;68;105;115;112;111;115;105;116;105;111;110;58;32;102;111;114;109;45;100;97;116;97;59;32;110;97;109;101;61;34]%N.
Definition mp_s_fnhead : bytes := [34;59;32;102;105;108;101;110;97;109;101;61;34]%N.   (* QUOTE; filename=QUOTE *)
Definition mp_s_cthead : bytes := [67;111;110;116;101;110;116;45;84;121;112;101;58;32]%N.   (* Content-Type:  *)
Definition mp_CRLF : bytes := [CR; LF].

Definition mp_encode_part (b : bytes) (p : mp_epart) : bytes :=
  [mp_DASH; mp_DASH] ++ b ++ mp_CRLF ++
  match p with
  | MpeText n v => mp_s_cdhead ++ mp_quote n ++ [mp_QUOTE] ++ mp_CRLF ++ mp_CRLF ++ v ++ mp_CRLF
  | MpeFile n f ct d =>
    mp_s_cdhead ++ mp_quote n ++ mp_s_fnhead ++ mp_quote f ++ [mp_QUOTE] ++ mp_CRLF ++
    (match ct with Some t => mp_s_cthead ++ t ++ mp_CRLF | None => [] end) ++ mp_CRLF ++ d ++ mp_CRLF
  end.

Definition mp_encode (b : bytes) (parts : list mp_epart) : bytes :=
  concat (map (mp_encode_part b) parts) ++ [mp_DASH; mp_DASH] ++ b ++ [mp_DASH; mp_DASH] ++ mp_CRLF.

(* sub-list test *)
Fixpoint mp_infix (n h : bytes) : bool :=
  match h with
  | [] => mp_isnil n
  | _ :: h' => begins_with_mem h n || mp_infix n h'
  end.

Definition mp_name_okb (n : bytes) : bool := forallb (fun c => negb (c =? CR)%N && negb (c =? LF)%N && negb (c =? 0)%N) n.
(* the data must not contain LF--b, also not right at its start (it follows a line end) *)
Definition mp_data_okb (b d : bytes) : bool := negb (mp_infix ([LF; mp_DASH; mp_DASH] ++ b) (LF :: d)).
Definition mp_ctype_okb (t : bytes) : bool :=
  negb (mp_isnil t) && forallb (fun c => mp_in 33 126 c && negb (c =? mp_SEMI)%N && negb (c =? mp_COMMA)%N) t.
Definition mp_epart_okb (b : bytes) (p : mp_epart) : bool :=
  match p with
  | MpeText n v => mp_name_okb n && mp_data_okb b v
  | MpeFile n f ct d => mp_name_okb n && mp_name_okb f && mp_data_okb b d &&
                        match ct with Some t => mp_ctype_okb t | None => true end
  end.
Definition mp_wfb (b : bytes) (parts : list mp_epart) : bool :=
  mp_bnd_okb b && forallb (mp_epart_okb b) parts.

(* what the parser must report for an encoded part *)
Definition mp_expect (p : mp_epart) : mp_ptype * option bytes * option bytes * option bytes * bytes :=
  match p with
  | MpeText n v => (MpText, Some n, None, None, v)
  | MpeFile n f ct d => (MpFile, Some n, Some f, match ct with Some t => Some (to_lowercase t) | None => None end, d)
  end.
Definition mp_report (p : mp_part) : mp_ptype * option bytes * option bytes * option bytes * bytes :=
  (mpp_type p, mpp_name p, mpp_file p, mpp_ctype p,
   match mpp_type p with MpFile => mpp_fdata p | _ => match mpp_value p with Some v => v | None => [] end end).
