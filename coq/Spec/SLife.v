(* C05: the computable premise of the history-level lifecycle theorem
     Proof/PLifeRun.lc_run_accepted : run_lcb cb g connp_new ops = true -> chk_C05 (obs_run cb g connp_new ops) = true
   (every callback oracle, configuration, operation list). run_lcb is evaluated along cp_run, like PSafeRun.run_okb:
   a conjunction of per-operation conditions (lc_op), the response-side ones through a twin of MRes.rs_res_loop
   (lc_res_loop) that checks a guard before / after every response state function. Clauses:
     P1  OpClose / OpReqClose is not applied to a direction whose status is STOP (htp_connp_close overwrites STOP and the
         parser resumes in the middle of a refused callback: known finding 2 and its variants);
     G4 / G6  a data call of one direction does not turn the status of the OTHER direction from STOP / ERROR into a live
         value (rs_unblock_request on a 101 / refused CONNECT, tunnel set-up in REQ_CONNECT_PROBE_DATA);
     G1  RES_IDLE is dispatched with a byte only when conn->transactions[out_next_tx_index] exists: no "unable to match
         response to request" placeholder (known findings 2 and 4);
     G3  RES_LINE is not dispatched when response_content_encoding_processing of out_tx is already NONE, i.e. after a
         line of this response has been delivered as body data (known finding 3);
     G5  no response state function returns with the fault flag set (a callback destroyed out_tx while the header-data
         receiver was still armed: the receiver callback is then logged for a NULL transaction). *)
Require Import Htp.Model.MConnTypes Htp.Model.MTxCommon Htp.Model.MTxRes Htp.Model.MReq Htp.Model.MRes Htp.Model.MConnp.
Local Open Scope Z_scope.

Section L.
Variable cb : cb_oracle.
Variable g : cfg.

(* a direction whose status is STOP or ERROR does not parse *)
Definition lc_dead (s : Z) : bool := (s =? c_HTP_STREAM_STOP) || (s =? c_HTP_STREAM_ERROR).
(* checked before a response state function is dispatched *)
Definition lc_res_pre (c : connp) : bool :=
  match c_out_state c with
  | RES_IDLE =>            (* a response starts only when a request is pending (no "unable to match response to request") *)
    if rs_has_byte c then match nth_error (c_txs c) (c_out_next_tx_index c) with Some (Some _) => true | _ => false end else true
  | RES_LINE =>            (* RES_LINE is not re-entered after it delivered a line as body data *)
    negb (t_res_cep (rs_tx c) =? c_HTP_COMPRESSION_NONE)
  | _ => true
  end.

(* twin of MRes.rs_res_loop *)
Fixpoint lc_res_loop (fuel : nat) (is_gap : bool) (c : connp) : bool :=
  match fuel with
  | O => true
  | S f =>
    let s := c_out_state c in
    let gap_ok := res_state_eqb s RES_BODY_IDENTITY_CL_KNOWN || res_state_eqb s RES_BODY_IDENTITY_STREAM_CLOSE in
    if is_gap && negb gap_ok && negb (res_state_eqb s RES_FINALIZE) then true
    else
      let direct := is_gap && negb gap_ok in
      (direct || lc_res_pre c) &&
      let '(rc, c1) := if direct then rs_response_complete cb g c else rs_state_fn cb g s c in
      negb (c_fault c1) &&
      match rc with
      | ST_OK =>
        if c_out_status c1 =? c_HTP_STREAM_TUNNEL then true
        else match rs_handle_state_change cb c1 with
             | (ST_OK, c2) => lc_res_loop f is_gap c2
             | _ => true
             end
      | _ => true
      end
  end.

(* twin of MRes.connp_res_data *)
Definition lc_res_data (data : option bytes) (len : nat) (c : connp) : bool :=
  if c_out_status c =? c_HTP_STREAM_STOP then true
  else if c_out_status c =? c_HTP_STREAM_ERROR then true
  else if match c_out_tx c with None => negb (res_state_eqb (c_out_state c) RES_IDLE) | Some _ => false end then true
  else if (len =? 0)%nat && negb (rs_closed c) then true
  else
    let c := rs_set_out (fun k => k <| k_data := data |> <| k_len := len |> <| k_read := 0%nat |>
                                    <| k_consume := 0%nat |> <| k_receiver := 0%nat |>) c in
    let c := c <| c_out_data_counter ::= Z.add (Z.of_nat len) |> in
    if c_out_status c =? c_HTP_STREAM_TUNNEL then true
    else lc_res_loop (rs_res_fuel len) (match data with None => (0 <? len)%nat | Some _ => false end) c.

(* a request-side call: does not revive a response stream that is in STOP / ERROR (tunnel set-up overwrites it) *)
Definition lc_req_ok (data : option bytes) (len : nat) (c : connp) : bool :=
  negb (lc_dead (c_out_status c)) || lc_dead (c_out_status (fst (connp_req_data cb g data len c))).
(* a response-side call *)
Definition lc_res_ok (data : option bytes) (len : nat) (c : connp) : bool :=
  (negb (lc_dead (c_in_status c)) || lc_dead (c_in_status (fst (connp_res_data cb g data len c)))) &&
  lc_res_data data len c.

Definition lc_close_in (c : connp) : connp :=
  if negb (c_in_status c =? c_HTP_STREAM_ERROR) then c <| c_in_status := c_HTP_STREAM_CLOSED |> else c.
Definition lc_close_out (c : connp) : connp :=
  if negb (c_out_status c =? c_HTP_STREAM_ERROR) then c <| c_out_status := c_HTP_STREAM_CLOSED |> else c.

Definition lc_op (c : connp) (o : cp_op) : bool :=
  match o with
  | OpOpen | OpTxFreed | OpDestroyTx _ => true
  | OpReqData d => lc_req_ok (Some d) (length d) c
  | OpReqGap n => lc_req_ok None n c
  | OpResData d => lc_res_ok (Some d) (length d) c
  | OpResGap n => lc_res_ok None n c
  | OpReqClose => negb (c_in_status c =? c_HTP_STREAM_STOP) && lc_req_ok None 0 (lc_close_in c)
  | OpClose =>
    negb (c_in_status c =? c_HTP_STREAM_STOP) && negb (c_out_status c =? c_HTP_STREAM_STOP) &&
    let c1 := lc_close_out (lc_close_in c) in
    lc_req_ok None 0 c1 && lc_res_ok None 0 (fst (connp_req_data cb g None 0 c1))
  end.

Fixpoint run_lcb (c : connp) (ops : list cp_op) : bool :=
  match ops with
  | [] => true
  | o :: r => lc_op c o && run_lcb (fst (cp_step cb g c o)) r
  end.
End L.
