(* Declarative vocabulary of property C13 (no model function appears here). *)
Require Import Htp.Model.Base.
Local Open Scope N_scope.

Definition su_is_lws (b : N) : bool := (b =? 32) || (b =? 9).
Definition su_is_digit (b : N) : bool := (48 <=? b) && (b <=? 57).
(* decimal value of a digit string *)
Definition su_dec (ds : bytes) : Z := fold_left (fun a d => (a * 10 + Z.of_N (d - 48))%Z) ds 0%Z.
(* "the port text p denotes v": LWS* digits+ LWS*, v the decimal value of the digits *)
Definition port_text (p : bytes) (v : Z) : Prop :=
  exists l ds r, p = l ++ ds ++ r /\ forallb su_is_lws l = true /\ forallb su_is_lws r = true /\
                 ds <> [] /\ forallb su_is_digit ds = true /\ v = su_dec ds.
