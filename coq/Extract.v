(* Extraction of the executable model for the correspondence drivers.
   ExtrOcamlBasic only: bool/option/unit/list/prod/sumbool/sumor map to OCaml's own types;
   no Extract Constant; N, Z, positive, nat stay Coq inductives. *)
Require Import Htp.Model.Base Htp.Model.MList Htp.Model.MBstr Htp.Model.MTable.
Require Import ExtrOcamlBasic.
Extraction Language OCaml.
Extraction "model.ml"
  Base.htp_is_space Base.htp_is_lws Base.htp_is_token Base.htp_is_separator Base.htp_is_text Base.htp_is_folding_char
  Base.c_isspace Base.c_isdigit Base.c_isxdigit Base.c_tolower Base.c_toupper
  MList.create MList.lstep MList.dstep MList.observe
  MBstr.cmp_mem MBstr.cmp_mem_nocase MBstr.cmp_mem_nocasenorzero
  MBstr.index_of_mem MBstr.index_of_mem_nocase MBstr.index_of_mem_nocasenorzero
  MBstr.begins_with_mem MBstr.begins_with_mem_nocase MBstr.bstr_chr MBstr.bstr_rchr MBstr.mem_trim MBstr.to_lowercase
  MBstr.add_mem_noex MBstr.mem_to_pint MBstr.parse_positive_integer_whitespace MBstr.parse_content_length
  MBstr.parse_chunked_length MBstr.parse_status MBstr.parse_protocol
  MTable.tcreate MTable.tstep MTable.mstep MTable.tobserve.
