#!/usr/bin/env python3
"""tools/mk.py Proof/PFoo.vo ...   regenerate constants, then make the targets (full .vo build)"""
import sys, os
sys.path.insert(0, os.path.join(os.path.dirname(os.path.abspath(__file__)), "..", "lib"))
import vf
ctx = vf.Ctx("MK")
vf.regen_constants(ctx)
ok, out = vf.coq_make(ctx, sys.argv[1:] or ["all"])
print(out[-2500:])
sys.exit(0 if ok else 1)
