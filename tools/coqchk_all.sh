#!/bin/bash
# usage: tools/coqchk_all.sh   re-checks every compiled property file (and everything it depends on) with Coq's independent checker and
# rewrites coqchk_report.txt (context summary per file: axioms, type-in-type, unsafe fixpoints, assumed positivity). 4 jobs in parallel.
cd /verif/coq || exit 2
T=$(mktemp -d)
ls Props/Properties_C*.v | sed 's|Props/||; s|\.v$||' | xargs -P 4 -I{} sh -c "timeout 3000 coqchk -silent -o -Q . Htp Htp.Props.{} > $T/{}.txt 2>&1; echo \$? > $T/{}.rc"
{
  echo "coqchk -silent -o -Q . Htp Htp.Props.Properties_Cnn (Coq 8.16.1 independent checker), run $(date +%F) on the committed development"
  for f in $(ls Props/Properties_C*.v | sed 's|Props/||; s|\.v$||'); do
    echo "== coqchk_${f#Properties_} rc=$(cat $T/$f.rc)"
    sed -n '/CONTEXT SUMMARY/,$p' $T/$f.txt
  done
} > /verif/coqchk_report.txt
rm -rf "$T"
grep -c "Axioms: <none>" /verif/coqchk_report.txt
