#!/usr/bin/env python3
"""usage: tools/req_try.py <cases-file> [--flavor plain|san] [--max N] [--no-coq] [--mask-out] [--dump K]
Like tools/connp_try.py, for request-only S-connp histories. --mask-out blanks the out_status field of every
per-op status on both sides (needed for histories with 'C' (htp_connp_close) as long as coq/Model/MRes.v is a stub:
closing calls htp_connp_res_data, whose only effect on a request-only history is out_status := DATA).
--dump K prints both full lines of case K."""
import sys, os, argparse
sys.path.insert(0, os.path.join(os.path.dirname(os.path.abspath(__file__)), "..", "lib"))
import vf

def mask_out(line):
    head, sep, tail = line.partition("||")
    parts = head.split("|")
    out = []
    for p in parts:
        i = p.rfind("@")
        ev, stt = (p[:i + 1], p[i + 1:]) if i >= 0 else ("", p)
        f = stt.split(":")
        if len(f) >= 5:
            f[3] = "_"
            if len(f) >= 9:
                f[7] = "_"; f[8] = "_"
        out.append(ev + ":".join(f))
    return "|".join(out) + sep + tail

def first_diff(a, b):
    pa, pb = a.split("|"), b.split("|")
    for k, (x, y) in enumerate(zip(pa, pb)):
        if x != y:
            i = 0
            while i < min(len(x), len(y)) and x[i] == y[i]:
                i += 1
            return "op#%d @%d\n   impl : ...%s\n   model: ...%s" % (k, i, x[max(0, i - 60):i + 100], y[max(0, i - 60):i + 100])
    return "length differs: impl %d parts, model %d parts" % (len(pa), len(pb))

def main():
    ap = argparse.ArgumentParser()
    ap.add_argument("cases")
    ap.add_argument("--flavor", default="san")
    ap.add_argument("--max", type=int, default=5)
    ap.add_argument("--no-coq", action="store_true")
    ap.add_argument("--mask-out", action="store_true")
    ap.add_argument("--dump", type=int, default=-1)
    ap.add_argument("--save-mismatches", default=None)
    a = ap.parse_args()
    ctx = vf.Ctx("TRY")
    if not a.no_coq:
        vf.regen_constants(ctx)
        ok, out = vf.coq_make(ctx, ["Extract.vo"])
        if not ok:
            print(out[-3000:]); sys.exit(2)
    cases = [l.rstrip("\n") for l in open(a.cases) if l.strip()]
    impl, model, crash = vf.correspond(ctx, "try", cases, flavor=a.flavor)
    if crash:
        print("CRASH at case %d rc=%s\n%s\ncase: %s" % (crash[0], crash[1], crash[2][-2500:], cases[crash[0]][:600]))
    if a.mask_out:
        impl = [mask_out(x) for x in impl]
        model = [mask_out(x) for x in model]
    mm = vf.first_mismatches(impl, model, limit=100000)
    print("%d cases, %d mismatches" % (len(cases), len(mm)))
    for i in mm[:a.max]:
        print("case %d: %s" % (i, cases[i][:400]))
        print("  " + first_diff(impl[i], model[i]))
    if a.save_mismatches and mm:
        open(a.save_mismatches, "w").write("\n".join(cases[i] for i in mm) + "\n")
    if 0 <= a.dump < len(cases):
        print("IMPL : " + impl[a.dump]); print("MODEL: " + model[a.dump])
    sys.exit(1 if mm or crash else 0)

if __name__ == "__main__":
    main()
