#!/bin/sh
# usage: tools/seed_repo.sh <dir>   scratch git worktree of /repo WITH the build state (configure output, objects, test binaries)
# so that `make check` works there. Remove with: git -C /repo worktree remove --force <dir>
set -e
d="$1"
git -C /repo worktree add --detach "$d" HEAD >/dev/null 2>&1
rsync -a --exclude .git /repo/ "$d"/
# the worktree must be HEAD: drop uncommitted changes of tracked files that the copy brought along
git -C "$d" checkout -- . >/dev/null 2>&1 || true
# make the copied objects look up to date relative to sources, but keep sources newer than nothing
echo "$d"
