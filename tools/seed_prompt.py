#!/usr/bin/env python3
"""prints the prompt for a seeding sub-agent: tools/seed_prompt.py Cnn /tmp/seed-dir [focus hint]"""
import sys, json
pid, d = sys.argv[1], sys.argv[2]
focus = " ".join(sys.argv[3:])
p = [json.loads(l) for l in open('/verif/properties.jsonl') if json.loads(l)['id'] == pid][0]
print(f"""You are helping to evaluate a verification effort for the C library OISF/libhtp (a streaming HTTP/1.x parser). You get ONE semantic property of the library and your own scratch git worktree of the library at {d} (it is a complete build tree: `cd {d} && make check` rebuilds what changed and runs the project's own 341 tests in a few seconds; the gtest log is {d}/test/test_all.log). Work ONLY inside {d} (and /tmp for scratch files). Do NOT read, list or use anything under /verif or /root/.vp, and do not touch /repo.

THE PROPERTY ({pid}: {p['title']}):
{p['statement']}
Quantifier: {p['quantifier']['text']}
Why the existing tests cannot settle it: {p['why_tests_cant']}
Code it is anchored in: {json.dumps(p['anchors'].get('files'))}; mechanisms: {json.dumps(p['anchors'].get('mechanism'))}

YOUR TASK: produce ONE realistic change to the library source (the kind of mistake or "optimisation"/refactoring a maintainer could plausibly commit) that BREAKS this property while the library still compiles without new warnings-as-errors and ALL 341 existing tests still pass. The breakage must need something specific to manifest — a particular multi-step sequence of operations, an unusual input, a particular boundary value, a particular segmentation/interleaving, or two cooperating sites that each look fine alone — not something ordinary use would expose at once (if the existing tests fail, the change is too obvious: pick another). Keep it small (a few lines), in the files the property is anchored in. {('Focus area for this change: ' + focus) if focus else ''}

DELIVER, inside {d}:
1. the change applied to the working tree (uncommitted), and `git diff > {d}/seed_patch.diff`;
2. a demonstration `{d}/seed_demo.c` (or .cpp): a small standalone program using the library's API (include headers from {d}/htp, e.g. "htp/htp_private.h" for internal functions; build it like `gcc -std=gnu99 -D_GNU_SOURCE -I{d} -I{d}/htp seed_demo.c {d}/htp/.libs/libhtp.a -lz -o seed_demo` after `make`) that exits 0 and prints PASS when the property holds on its input and exits 1 and prints FAIL when it does not; it must FAIL with your change and PASS without it (verify both, rebuilding each time; do NOT use `git stash` — the stash is shared between worktrees of other people working in parallel — use `git diff > seed_patch.diff; git apply -R seed_patch.diff` to remove your change and `git apply seed_patch.diff` to put it back) — put the exact build+run commands in a comment at the top of the file;
3. `{d}/seed_meta.json`: {{"property": "{pid}", "summary": "...what was changed...", "needs": "...what specific input/sequence/boundary is needed for the violation to manifest...", "why_tests_pass": "...", "commands": ["...what you ran..."], "tests_pass_with_change": true, "demo_fails_with_change": true, "demo_passes_without_change": true}}.
Confirm `make check` passes with the change (look for "[  PASSED  ] 341 tests." in test/test_all.log). Leave the worktree with the change APPLIED. Final answer: a 5-line summary (files touched, what breaks, what input shows it).""")
