#!/bin/bash
# usage: reseed.sh <seed-name> <Cnn>   -> applies stored patch to scratch copy and runs check
n=$1; p=$2; R=/tmp/wt-re-$n
cd /verif
git -C /repo worktree remove --force $R >/dev/null 2>&1
tools/scratch_repo.sh $R >/dev/null
git -C $R apply /verif/seeded/$n/patch.diff || echo "PATCH DOES NOT APPLY"
VERIF_REPO=$R ./check $p 2>&1 | grep -v "^KNOWN" | tail -4
git -C /repo worktree remove --force $R
