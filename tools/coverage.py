#!/usr/bin/env python3
"""Source coverage of /repo's library reached by the correspondence inputs (a measure of generator quality, not a proof):
builds harness/htp_driver.c with clang source-based coverage, runs the case sets of the given checks' generators and prints
llvm-cov's per-file summary for the files the properties are anchored in. usage: tools/coverage.py [quick|thorough]"""
import os, subprocess, sys, json
sys.path.insert(0, os.path.join(os.path.dirname(os.path.abspath(__file__)), "..", "lib"))
import vf, sconnp, connp_props as cp, c01, c04, c10, c16, c06

tier = sys.argv[1] if len(sys.argv) > 1 else "quick"
vf.FLAVORS["prof"] = (["clang", "-O0", "-g", "-fprofile-instr-generate", "-fcoverage-mapping"], ["-fprofile-instr-generate"])
ctx = vf.Ctx("COV", tier)
vf.assemble()
exe = vf.impl_driver(ctx, "prof")
cases = cp.corpus_cases(ctx, chunkings=2) + cp.general_cases(ctx, 3000, 3000, res_flags={"destroy_uaf": False})
cases += c01.full_cases(ctx, 4000) + c04.histories(ctx, 500)[0] + c04.connect_histories(ctx, 300)[0] + c10.limit_cases(ctx, 500) + c16.scenarios(ctx, 600)[0]
print("cases:", len(cases))
prof = os.path.join(ctx.tmp, "p-%p.profraw")
n = len(cases)
step = (n + 15) // 16
import concurrent.futures as cf
def work(k):
    part = cases[k * step:(k + 1) * step]
    pos = 0
    while pos < len(part):
        lines, rc, err = vf.run_driver(ctx, exe, part[pos:], "cov-%d" % k, env={"LLVM_PROFILE_FILE": prof}, timeout=900)
        if rc == 0:
            break
        pos += len(lines) + 1
with cf.ThreadPoolExecutor(16) as ex:
    list(ex.map(work, range(16)))
raws = [os.path.join(ctx.tmp, f) for f in os.listdir(ctx.tmp) if f.endswith(".profraw")]
pd = os.path.join(ctx.tmp, "all.profdata")
subprocess.check_call(["llvm-profdata", "merge", "-sparse"] + raws + ["-o", pd])
srcs = [os.path.join(vf.REPO, "htp", f) for f in sorted(os.listdir(os.path.join(vf.REPO, "htp"))) if f.endswith(".c")]
r = subprocess.run(["llvm-cov", "report", exe, "-instr-profile=" + pd] + srcs, stdout=subprocess.PIPE, universal_newlines=True)
print(r.stdout)
if len(sys.argv) > 2:
    for f in sys.argv[2:]:
        r = subprocess.run(["llvm-cov", "show", exe, "-instr-profile=" + pd, os.path.join(vf.REPO, "htp", f), "-show-line-counts-or-regions=false"], stdout=subprocess.PIPE, universal_newlines=True)
        unc = [l for l in r.stdout.split("\n") if "|      0|" in l]
        print("== %s: %d uncovered lines" % (f, len(unc)))
        print("\n".join(unc[:400]))
