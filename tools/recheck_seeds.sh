#!/bin/bash
# usage: tools/recheck_seeds.sh [name-prefix]
# Re-applies every stored seeded change (seeded/<name>/patch.diff) to a scratch copy of /repo HEAD and runs the quick check of its
# property against it, from a private copy of /verif (so that it can run beside other work). Prints one line per seed:
#   <name> applies=<0|1> check_exit=<n> [first VIOLATION line]
# A seed whose patch no longer applies (the code it changed was repaired or rewritten since) is reported, not failed.
set -u
V=/verif
W=/tmp/verif-sweep
rm -rf "$W"; mkdir -p "$W"
rsync -a --exclude .git --exclude replay --exclude evidence "$V"/ "$W"/
mkdir -p "$W/replay" "$W/evidence"
cd "$W" || exit 2
for d in "$V"/seeded/${1:-}*/; do
  n=$(basename "$d"); p=${n%%-*}
  R=/tmp/wt-sweep
  git -C /repo worktree remove --force "$R" >/dev/null 2>&1
  "$V"/tools/scratch_repo.sh "$R" >/dev/null
  if git -C "$R" apply "$d/patch.diff" 2>/dev/null; then a=1; else a=0; fi
  if [ $a = 1 ]; then
    VERIF_REPO="$R" ./check "$p" > /tmp/sweep-out.txt 2>&1; c=$?
    echo "$n applies=1 check_exit=$c $(grep -m1 '^VIOLATION' /tmp/sweep-out.txt | cut -c1-120)"
  else
    echo "$n applies=0"
  fi
  git -C /repo worktree remove --force "$R" >/dev/null 2>&1
done
rm -rf "$W"
