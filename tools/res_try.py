#!/usr/bin/env python3
"""usage: tools/res_try.py <cases-file> [--flavor sanr|san|plain] [--max N] [--no-coq]
Like tools/connp_try.py (library from $VERIF_REPO or /repo vs. extracted model on S-connp case lines), plus a
flavor `sanr` = ASan+UBSan where ONLY the pointer-overflow check is recoverable: the known benign
"applying zero offset to null pointer" reports at htp_request.c:251,550 / htp_response.c:252,490,525 (NULL + 0 on
gaps and close) no longer abort the run; every UBSan report is collected from stderr and any report that is not
one of those five is printed as a FINDING. Everything else (ASan, the other UBSan checks) still aborts."""
import sys, os, argparse, glob, re, collections
sys.path.insert(0, os.path.join(os.path.dirname(os.path.abspath(__file__)), "..", "lib"))
import vf

KNOWN_NULL_OFFSET = {("htp_request.c", 251), ("htp_request.c", 550), ("htp_response.c", 252), ("htp_response.c", 490),
                     ("htp_response.c", 525),
                     # same class, seen while building the response model (receiver_send_data on close / gap with NULL chunk):
                     ("htp_response.c", 98), ("htp_request.c", 96)}


def install_sanr():
    vf.FLAVORS["sanr"] = (["clang", "-O1", "-g", "-fsanitize=address,undefined", "-fno-sanitize-recover=undefined",
                           "-fsanitize-recover=pointer-overflow", "-fno-omit-frame-pointer"], ["-fsanitize=address,undefined"])
    vf.SAN_ENV["UBSAN_OPTIONS"] = "print_stacktrace=0:halt_on_error=0:exitcode=87"


PRIV = os.path.join(vf.BUILD, "res-private")
EXTRACT_NAMES = ("MConnTypes.connp_new MConnp.cp_step MConnp.cp_run MConnp.script_lookup MConnp.cp_make_cfg")


def private_model_driver(ctx, rebuild=True):
    """A model driver that contains ONLY the S-connp suite, extracted and compiled in build/res-private, so that
    half-finished extraction lists / md fragments of other suites cannot break the response-side inner loop."""
    os.makedirs(PRIV, exist_ok=True)
    exe = os.path.join(PRIV, "model_driver")
    if not rebuild and os.path.exists(exe):
        return exe
    ok, out = vf.coq_make(ctx, ["Model/MConnp.vo"])
    if not ok:
        print(out[-3000:]); sys.exit(2)
    ex = ("Require Import Htp.Model.MConnTypes Htp.Model.MTxCommon Htp.Model.MReq Htp.Model.MRes Htp.Model.MConnp.\n"
          "Require Import ExtrOcamlBasic.\nExtraction Language OCaml.\nExtraction \"model.ml\" %s.\n" % EXTRACT_NAMES)
    open(os.path.join(PRIV, "ResExtract.v"), "w").write(ex)
    r = vf.run(["coqc", "-Q", vf.COQ, "Htp", "ResExtract.v"], cwd=PRIV, timeout=900)
    if r.returncode != 0:
        print(r.stdout[-3000:]); sys.exit(2)
    md = "".join(open(os.path.join(vf.HARNESS, "md", x)).read() + "\n" for x in ("md_00_prelude.ml", "md_30_connp.ml", "md_99_main.ml"))
    open(os.path.join(PRIV, "model_driver.ml"), "w").write(md)
    r = vf.run(["ocamlfind", "ocamlopt", "-w", "-a", "-package", "str", "-linkpkg", "model.mli", "model.ml", "model_driver.ml",
                "-o", exe], cwd=PRIV, timeout=600)
    if r.returncode != 0:
        print(r.stdout[-3000:]); sys.exit(2)
    return exe


def first_diff(a, b):
    pa, pb = a.split("|"), b.split("|")
    for k, (x, y) in enumerate(zip(pa, pb)):
        if x != y:
            i = 0
            while i < min(len(x), len(y)) and x[i] == y[i]:
                i += 1
            return "op#%d @%d\n   impl : ...%s\n   model: ...%s" % (k, i, x[max(0, i - 70):i + 110], y[max(0, i - 70):i + 110])
    return "length differs: impl %d parts, model %d parts" % (len(pa), len(pb))


RE_UB = re.compile(r"([A-Za-z0-9_./-]+\.[ch]):(\d+):\d+: runtime error: (.*)")


def ubsan_reports(ctx):
    """distinct UBSan reports in the stderr files of the implementation runs of this ctx"""
    seen = collections.Counter()
    for ef in glob.glob(os.path.join(ctx.tmp, "*-impl*.err")):
        with open(ef, errors="replace") as f:
            for l in f:
                m = RE_UB.search(l)
                if m:
                    seen[(os.path.basename(m.group(1)), int(m.group(2)), m.group(3).strip())] += 1
    return seen


def run_cases(ctx, cases, flavor="sanr", tag="try", private=True, rebuild=True):
    """returns (impl, model, crash, mismatch_indices, unknown_ub)"""
    if flavor == "sanr":
        install_sanr()
    if private:
        exe = private_model_driver(ctx, rebuild=rebuild)
        vf.build_model_driver = lambda ctx: exe
    impl, model, crash = vf.correspond(ctx, tag, cases, flavor=flavor)
    mm = vf.first_mismatches(impl, model, limit=100000)
    ub = ubsan_reports(ctx)
    unknown = {k: v for k, v in ub.items()
               if not ((k[0], k[1]) in KNOWN_NULL_OFFSET and "zero offset to null" in k[2])}
    return impl, model, crash, mm, unknown, ub


def main():
    ap = argparse.ArgumentParser()
    ap.add_argument("cases")
    ap.add_argument("--flavor", default="sanr")
    ap.add_argument("--max", type=int, default=5)
    ap.add_argument("--no-coq", action="store_true", help="do not rebuild the Coq model / extraction first")
    ap.add_argument("--idx", action="store_true", help="print the indices of all mismatching cases on one line")
    a = ap.parse_args()
    ctx = vf.Ctx("TRY")
    if not a.no_coq:
        vf.regen_constants(ctx)
    cases = [l.rstrip("\n") for l in open(a.cases) if l.strip()]
    impl, model, crash, mm, unknown, ub = run_cases(ctx, cases, a.flavor, rebuild=not a.no_coq)
    if crash:
        print("CRASH at case %d rc=%s\n%s" % (crash[0], crash[1], crash[2][-2500:]))
        if crash[0] < len(cases):
            print("crashing case: %s" % cases[crash[0]][:600])
    print("%d cases, %d mismatches; known NULL+0 reports: %d" % (len(cases), len(mm), sum(ub.values()) - sum(unknown.values())))
    if a.idx:
        print("MISMATCH-INDICES " + " ".join(map(str, mm)))
    for k, v in sorted(unknown.items()):
        print("FINDING (UBSan, %d x): %s:%d: %s" % (v, k[0], k[1], k[2]))
    for i in mm[:a.max]:
        print("case %d: %s" % (i, cases[i][:400]))
        if i < len(impl) and i < len(model):
            print("  " + first_diff(impl[i], model[i]))
    sys.exit(1 if mm or crash or unknown else 0)


if __name__ == "__main__":
    main()
