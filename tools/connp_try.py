#!/usr/bin/env python3
"""usage: tools/connp_try.py <cases-file> [--flavor plain|san] [--max N]
Runs the library (built from $VERIF_REPO or /repo) and the extracted model on S-connp (or any suite) case lines
and prints the first differing field of each mismatching case (compact)."""
import sys, os, argparse
sys.path.insert(0, os.path.join(os.path.dirname(os.path.abspath(__file__)), "..", "lib"))
import vf

def first_diff(a, b):
    pa, pb = a.split("|"), b.split("|")
    for k, (x, y) in enumerate(zip(pa, pb)):
        if x != y:
            # find first differing position
            i = 0
            while i < min(len(x), len(y)) and x[i] == y[i]:
                i += 1
            return "op#%d @%d\n   impl : ...%s\n   model: ...%s" % (k, i, x[max(0, i - 60):i + 100], y[max(0, i - 60):i + 100])
    return "length differs: impl %d parts, model %d parts" % (len(pa), len(pb))

def main():
    ap = argparse.ArgumentParser()
    ap.add_argument("cases")
    ap.add_argument("--flavor", default="san")
    ap.add_argument("--max", type=int, default=5)
    ap.add_argument("--no-coq", action="store_true", help="do not rebuild the Coq model / extraction first")
    a = ap.parse_args()
    ctx = vf.Ctx("TRY")
    if not a.no_coq:
        vf.regen_constants(ctx)
        ok, out = vf.coq_make(ctx, ["Extract.vo"])
        if not ok:
            print(out[-3000:]); sys.exit(2)
    cases = [l.rstrip("\n") for l in open(a.cases) if l.strip()]
    impl, model, crash = vf.correspond(ctx, "try", cases, flavor=a.flavor)
    if crash:
        print("CRASH at case %d rc=%s\n%s" % (crash[0], crash[1], crash[2][-1500:]))
    mm = vf.first_mismatches(impl, model, limit=100000)
    print("%d cases, %d mismatches" % (len(cases), len(mm)))
    for i in mm[:a.max]:
        print("case %d: %s" % (i, cases[i][:300]))
        print("  " + first_diff(impl[i], model[i]))
    sys.exit(1 if mm or crash else 0)

if __name__ == "__main__":
    main()
