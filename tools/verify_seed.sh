#!/bin/bash
# usage: tools/verify_seed.sh <seed-worktree> <Cnn> <seed-name>
# Confirms a seeded change independently: tests pass with it, demo fails with it and passes without it,
# then runs ./check Cnn against a scratch copy with the patch applied and stores everything under seeded/<seed-name>/.
set -u
S="$1"; P="$2"; NAME="$3"
V=/verif
OUT=$V/seeded/$NAME
mkdir -p "$OUT"
cd "$S" || exit 2
git diff -- htp > "$OUT/patch.diff"
[ -s "$OUT/patch.diff" ] || { echo "empty patch"; exit 2; }
DEMO=$(ls seed_demo.c seed_demo.cpp 2>/dev/null | head -1)
cp "$DEMO" "$OUT/" ; cp seed_meta.json "$OUT/meta.json" 2>/dev/null; cp seed_build.sh "$OUT/" 2>/dev/null
build_demo() {
  if [ -f "$S/seed_build.sh" ]; then ( . "$S/seed_build.sh" ) 2>&1 | tail -3; return; fi   # optional: the demo needs its own link flags (must produce ./seed_demo_bin)
  if [ "${DEMO##*.}" = "cpp" ]; then g++ -D_GNU_SOURCE -I"$S" -I"$S/htp" "$DEMO" "$S/htp/.libs/libhtp.a" -lz -pthread -o seed_demo_bin 2>&1 | tail -3
  else gcc -std=gnu99 -D_GNU_SOURCE -I"$S" -I"$S/htp" "$DEMO" "$S/htp/.libs/libhtp.a" -lz -pthread -o seed_demo_bin 2>&1 | tail -3; fi
}
echo "== with change: make check"
make check >/dev/null 2>&1; T1=$(grep -c 'PASSED  \] 341 tests' test/test_all.log)
build_demo; ./seed_demo_bin >/tmp/demo_with.txt 2>&1; D1=$?
echo "tests_pass=$T1 demo_exit_with_change=$D1 ($(tail -1 /tmp/demo_with.txt))"
echo "== without change"
git apply -R "$OUT/patch.diff"; make >/dev/null 2>&1; build_demo; ./seed_demo_bin >/tmp/demo_wo.txt 2>&1; D0=$?
echo "demo_exit_without_change=$D0 ($(tail -1 /tmp/demo_wo.txt))"
git apply "$OUT/patch.diff"; make >/dev/null 2>&1
echo "== our check against a scratch copy with the patch"
W=/tmp/wt-verify-$NAME
git -C /repo worktree remove --force "$W" >/dev/null 2>&1
$V/tools/scratch_repo.sh "$W" >/dev/null
git -C "$W" apply "$OUT/patch.diff" || { echo "patch does not apply to /repo HEAD"; }
cd $V
VERIF_REPO="$W" ./check "$P" > "$OUT/check_output.txt" 2>&1; C=$?
grep -E '^VIOLATION|^KNOWN-FINDING' "$OUT/check_output.txt" | cut -c1-200
echo "check_exit=$C"
RP=$(grep -m1 '^VIOLATION' "$OUT/check_output.txt" | sed 's/.*replay=\([^ ]*\).*/\1/')
[ -n "$RP" ] && [ -f "$RP" ] && cp "$RP" "$OUT/replay_example.json"
git -C /repo worktree remove --force "$W"
python3 - "$OUT" "$P" "$T1" "$D1" "$D0" "$C" <<'PY'
import json, sys, os
out, prop, t1, d1, d0, c = sys.argv[1:7]
mp = os.path.join(out, "meta.json")
m = json.load(open(mp)) if os.path.exists(mp) else {}
m["verified_by_lead"] = {"tests_pass_with_change": t1 == "1", "demo_exit_with_change": int(d1), "demo_exit_without_change": int(d0),
                         "check_cmd": "VERIF_REPO=<scratch copy with patch.diff applied> ./check %s" % prop, "check_exit": int(c),
                         "caught": int(c) == 1}
json.dump(m, open(mp, "w"), indent=1)
print("recorded", mp)
PY
# restore the evidence file from the unchanged tree later with a plain ./check
