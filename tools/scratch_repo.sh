#!/bin/sh
# usage: tools/scratch_repo.sh <dir>      creates a scratch git worktree of /repo (HEAD + uncommitted tracked changes are NOT copied)
# plus the configure-generated headers the direct compile needs. Use with VERIF_REPO=<dir> ./check Cnn.
# remove with: git -C /repo worktree remove --force <dir>
set -e
d="$1"
git -C /repo worktree add --detach "$d" HEAD >/dev/null 2>&1
for f in htp_config_auto_gen.h htp/htp_version.h; do
  [ -f "/repo/$f" ] && cp "/repo/$f" "$d/$f"
done
echo "$d"
